"""C04 — row polarity and orientation constraints are honoured.

T1   oppositeRowOrientation: exhaustive table = specification (involution N<->FS, S<->FN, E<->FW, W<->FE)
T2   cellOrientationInRow: exhaustive 5 x 8 table = specification; every polarity handled (no abort)
SA   admission: every exit of a predicate that admits (cell,row) is edge-dominated by the orientation
     compatibility of exactly that pair
AC   commit: a cell is committed to a row only when the admission predicate said ok for that cell and row
G7   every store into an orientation state takes its value from the orientation function of the row the
     cell's y is set to in the same commit
KO   cells without polarity keep the orientation they had on input
R2   the consistency checker rejects INVALID
"""
import json
import os

from ..frontend import VERIF, AnalysisBroken
from ..model import qt, loc_str, walk, inner
from ..expr import canon, pretty, children, strip, callee_info, subterms
from ..cfg import cfg_of
from ..tables import Evaluator, EnumVal, OutsideFragment, Abort
from .common import CQ, short, expand_locals, binding_source, assignments_to, vars_in

EXPLANATION = (
    "Static check on the clang-resolved AST. T1/T2: oppositeRowOrientation and cellOrientationInRow are evaluated by constant "
    "propagation over the AST for every enumerator combination (10 and 5x8 cells) and compared with rules/orientation_spec.json; "
    "reaching abort() for any polarity is a violation (exhaustiveness). SA: for each admission predicate (Abacus evaluatePlacement, "
    "Tetris attemptPlacement, DetailedPlacement canPlace/canInsert/canSwap, RowReordering::runRegionChoice) every admitting exit "
    "(a return that is not the literal false / the recursive evaluation) is edge-dominated by an orientation-compatibility test "
    "(value of getOrientation/cellOrientationInRow compared with INVALID, directly or through a one-line boolean helper) on exactly "
    "the (cell,row) pair(s) the predicate admits. AC: in the two legalizers the commit (row push / position store / placed flag) is "
    "dominated by a witness that is only set under the ok result of the admission predicate for the same cell and row, and the "
    "witness variables of one candidate are assigned together. G7: each orientation store is the orientation function of the row "
    "whose y is stored in the same commit. R2: DetailedPlacement::check throws when the expected orientation is INVALID.")

DECLINED = ["which row is chosen among the admissible ones (numeric search)"]

INVALID = ("enum", "CellOrientation::INVALID")
UNKNOWN_O = ("enum", "CellOrientation::UNKNOWN")
ORIENT_FUNCS = {CQ + "LegalizerBase::getOrientation", CQ + "cellOrientationInRow"}

# predicate -> list of (cell, row) pairs it admits, written with pretty() of the canonical argument
PREDICATES = {
    "AbacusLegalizer::evaluatePlacement": [("cell", "row")],
    "TetrisLegalizer::attemptPlacement": [("cell", "LegalizerBase::closestRow(y)")],
    "DetailedPlacement::canPlace": [("c", "row")],
    "DetailedPlacement::canInsert": [("c", "row")],
    "DetailedPlacement::canSwap": [("c1", "DetailedPlacement::cellRow(c2)"), ("c2", "DetailedPlacement::cellRow(c1)")],
}


def run(ctx, rep, tier):
    prog = ctx.prog
    spec = json.load(open(os.path.join(VERIF, "rules", "orientation_spec.json")))
    rep.rule("T1", "oppositeRowOrientation table equals the specification (exhaustive)", 10)
    rep.rule("T2", "cellOrientationInRow table equals the specification, all polarities handled (exhaustive)", 40)
    rep.rule("SA", "every admitting exit of an admission predicate is dominated by orientation compatibility of that (cell,row)", 7)
    rep.rule("AC", "legalizer commits only candidates the admission predicate accepted; candidate variables assigned together", 2)
    rep.rule("G7", "orientation stores come from the orientation function of the row whose y is stored with them", 4)
    rep.rule("EO", "the legalized orientation of every placed cell is written back (no export condition that ignores the orientation)", 2)
    rep.rule("PP", "the model builders hand the circuit's row polarities over unchanged", 3)
    rep.rule("R1", "Detailed-step callbacks observe the exported (legalized / current) placement", 2)
    rep.rule("KO", "cells without polarity keep their input orientation", 3)
    rep.rule("R2", "DetailedPlacement::check rejects INVALID", 1)
    rep.rule("CA", "the polarity (and every other per-cell vector) given to the legalizer is in the legalizer's compact cell numbering", 2)
    from .common import check_compaction
    check_compaction(ctx, rep, "CA", ctx.prog.func1(CQ + "Legalizer::fromIspdCircuit"), ctx.prog.func1(CQ + "Legalizer::exportPlacement"))
    check_tables(ctx, rep, spec)
    for q, pairs in PREDICATES.items():
        check_predicate(ctx, rep, prog.func1(CQ + q), pairs)
    check_region_choice(ctx, rep)
    check_commits(ctx, rep, "AC")
    check_g7(ctx, rep)
    check_export_orientation(ctx, rep)
    from .c02 import check_export_before_callback
    check_export_before_callback(ctx, rep, "R1", (CQ + "DetailedPlacer",))
    check_polarity_provenance(ctx, rep)
    check_keep(ctx, rep)
    check_r2(ctx, rep)


# ---- tables ------------------------------------------------------------------------

def check_tables(ctx, rep, spec):
    prog = ctx.prog
    ev = Evaluator(prog)
    CO, CP = CQ + "CellOrientation", CQ + "CellRowPolarity"
    onames = dict(ev.enumerators(CO))
    pnames = dict(ev.enumerators(CP))
    f1 = prog.func1(CQ + "oppositeRowOrientation")
    for n, v in onames.items():
        try:
            got = ev.enum_name(ev.call(f1, [v]))
        except OutsideFragment as e:
            rep.unknown("T1", f1.decl, f1, "oppositeRowOrientation(%s)" % n, "outside the evaluable fragment: %s" % e)
            continue
        except Abort:
            got = "<abort>"
        want = spec["opposite_row"].get(n)
        if want is None:
            rep.unknown("T1", f1.decl, f1, "oppositeRowOrientation(%s)" % n, "enumerator not in the specification table")
        elif got == want:
            rep.holds("T1", f1.decl, f1, "oppositeRowOrientation(%s) = %s" % (n, got))
        else:
            rep.violation("T1", f1.decl, f1, "oppositeRowOrientation(%s) = %s" % (n, got), "specification: %s" % want,
                          key="oppositeRowOrientation|%s" % n)
    f2 = prog.func1(CQ + "cellOrientationInRow")
    for pn in ("ANY", "SAME", "OPPOSITE", "NW", "SE"):
        if pn not in pnames:
            raise AnalysisBroken("polarity %s not found" % pn)
    for pn, pv in pnames.items():
        for on in spec["names"]:
            ov = onames[on]
            try:
                got = ev.enum_name(ev.call(f2, [pv, ov]))
            except OutsideFragment as e:
                rep.unknown("T2", f2.decl, f2, "cellOrientationInRow(%s,%s)" % (pn, on), "outside the evaluable fragment: %s" % e)
                continue
            except Abort:
                rep.violation("T2", f2.decl, f2, "cellOrientationInRow(%s,%s) aborts" % (pn, on), "polarity not handled",
                              key="cellOrientationInRow|%s unhandled" % pn)
                continue
            if pn == "ANY":
                want = "UNKNOWN"
            elif pn == "SAME":
                want = on
            elif pn == "OPPOSITE":
                want = spec["opposite_row"][on]
            elif pn == "NW":
                want = on if on in spec["nw_rows"] else "INVALID"
            elif pn == "SE":
                want = on if on in spec["se_rows"] else "INVALID"
            else:
                rep.unknown("T2", f2.decl, f2, "polarity %s" % pn, "new polarity without a specification entry")
                continue
            what = "cellOrientationInRow(%s,%s) = %s" % (pn, on, got)
            if got == want:
                rep.holds("T2", f2.decl, f2, what)
            else:
                rep.violation("T2", f2.decl, f2, what, "specification: %s" % want, key="cellOrientationInRow|%s,%s" % (pn, on))


# ---- admission predicates ------------------------------------------------------------

def compat_test(ctx, func, c, val):
    """If condition c evaluated to val establishes 'orientation of (cell,row) is not INVALID', return (cell, row)
    as pretty strings; else None."""
    c = expand_locals(ctx, func, c)
    if c[0] == "bin" and c[1] in ("==", "!="):
        for a, b in ((c[2], c[3]), (c[3], c[2])):
            if b == INVALID and a[0] == "call" and a[1] in ORIENT_FUNCS:
                ok = (c[1] == "==" and val is False) or (c[1] == "!=" and val is True)
                if not ok:
                    return None
                return orient_call_pair(a)
    if c[0] == "call" and val is True:
        # boolean helper whose body is `return <orientation call> != INVALID`
        for h in ctx.prog.funcs_by_q.get(c[1], []):
            rets = [x for x in walk(h.body) if x.get("kind") == "ReturnStmt"]
            if len(rets) != 1 or len(list(inner(h.body))) != 1:
                continue
            rc = canon(children(rets[0])[0])
            if rc[0] == "bin" and rc[1] == "!=" and rc[3] == INVALID and rc[2][0] == "call" and rc[2][1] in ORIENT_FUNCS:
                pair = orient_call_pair(rc[2])
                if pair is None:
                    continue
                # substitute the helper's parameters by the actual arguments
                sub = {}
                for p, a in zip(h.params, c[3:]):
                    sub[p.get("name")] = pretty(a)
                return tuple(sub.get(x, x) for x in pair)
    return None


def orient_call_pair(a):
    """(cell, row) named by getOrientation(cell,row) / cellOrientationInRow(pol[cell], rows_[row].orientation)."""
    if a[1] == CQ + "LegalizerBase::getOrientation":
        return pretty(a[3]), pretty(a[4])
    if a[1] == CQ + "cellOrientationInRow" and len(a) >= 5:
        pol, ro = a[3], a[4]
        cell = row = None
        if pol[0] == "index" and pol[1][0] == "field" and pol[1][1].endswith("cellRowPolarity_"):
            cell = pretty(pol[2])
        elif pol[0] == "call" and pol[1].endswith("cellRowPolarity"):
            cell = pretty(pol[3])
        if ro[0] == "field" and ro[1].endswith("orientation") and ro[2][0] == "index":
            row = pretty(ro[2][2])
        if cell is not None and row is not None:
            return cell, row
    return None


def admitting_exits(func):
    """Return statements that can admit: value is not the literal false / make_pair(false, ..)."""
    out = []
    for x in walk(func.body):
        if x.get("kind") != "ReturnStmt":
            continue
        if ctx_func_of(x) is not func.body:
            pass
        ch = children(x)
        if not ch:
            continue
        c = canon(ch[0])
        while c[0] == "construct" and len(c) == 3 and c[2][0] in ("call", "construct", "var"):
            c = c[2]
        if c[0] == "var":
            # `const std::pair<bool, int> notPlaceable(false, 0); ... return notPlaceable;`: the value is what the constant was built from
            d0 = func.unit.by_id.get(c[1])
            if d0 is not None and d0.get("kind") == "VarDecl" and qt(d0).startswith("const ") and "bool" != qt(d0).replace("const ", "").strip() and children(d0):
                c0 = canon(children(d0)[-1])
                while c0[0] == "construct" and len(c0) == 3 and c0[2][0] in ("call", "construct"):
                    c0 = c0[2]
                if c0[0] in ("construct", "call", "initlist"):
                    c = c0
        if c == ("lit", False):
            continue
        if c[0] == "initlist" and len(c) > 1 and ("lit", False) in c[1:3]:
            continue
        if c[0] == "call" and c[1] == "make_pair" and len(c) > 3 and c[3] == ("lit", False):
            continue
        if c[0] == "construct" and len(c) > 2 and c[2] == ("lit", False):
            continue
        # single-exit form: `return make_pair(found, dest)` with a local flag -> the admitting points are the stores of true
        flag = None
        if c[0] == "call" and c[1] == "make_pair" and len(c) > 3 and c[3][0] == "var":
            flag = c[3]
        elif c[0] == "construct" and len(c) > 2 and c[2][0] == "var":
            flag = c[2]
        elif c[0] == "var":
            flag = c
        if flag is not None:
            d = func.unit.by_id.get(flag[1])
            is_bool = d is not None and d.get("kind") == "VarDecl" and qt(d).replace("const ", "").strip() == "bool"
            if is_bool:
                stores = []
                init = children(d)
                if init and canon(init[-1]) == ("lit", True):
                    stores.append(d)
                for y in walk(func.body):
                    if y.get("kind") == "BinaryOperator" and y.get("opcode") == "=":
                        l, r = children(y)
                        if canon(l)[:2] == flag[:2]:
                            rc = canon(r)
                            if rc == ("lit", False):
                                continue
                            stores.append(y)
                if stores:
                    for y in stores:
                        out.append((y, c))
                    continue
        out.append((x, c))
    return out


def ctx_func_of(x):
    return None


def neighbour_shortcut(g, node):
    """All branch edges through which `node` is entered test adjacency of the two cells (cellPred(a) == b)."""
    preds = list(node.pred)
    seen = set()
    edges = []
    while preds:
        p = preds.pop()
        if p.idx in seen:
            continue
        seen.add(p.idx)
        if p.kind == "edge":
            edges.append(p)
        elif p.kind == "join":
            preds.extend(p.pred)
        else:
            return False
    if not edges:
        return False
    def adjacency(c):
        return c[0] == "bin" and c[1] == "==" and c[2][0] == "call" and c[2][1].endswith("::cellPred") and c[3][0] == "var"
    for e in edges:
        c = canon(e.ast)
        if e.val is True and adjacency(c):
            continue
        # a named predicate (`areNeighbours(c1, c2)`) whose only statement returns a disjunction of adjacency tests
        ok = False
        x = strip(e.ast, casts=True)
        if e.val is True and x.get("kind") in ("CXXMemberCallExpr", "CallExpr") and CTX[0] is not None:
            _ci, hs = CTX[0].eff.resolve_callee(x)
            if len(hs) == 1 and hs[0].body is not None:
                st = [y for y in inner(hs[0].body) if isinstance(y, dict) and y.get("kind")]
                if len(st) == 1 and st[0].get("kind") == "ReturnStmt" and children(st[0]):
                    atoms = []

                    def flat(t):
                        if t[0] == "bin" and t[1] == "||":
                            flat(t[2]); flat(t[3])
                        else:
                            atoms.append(t)
                    flat(canon(children(st[0])[0]))
                    ok = bool(atoms) and all(adjacency(t) for t in atoms)
        if not ok:
            return False
    return True


CTX = [None]


def check_predicate(ctx, rep, f, pairs):
    CTX[0] = ctx
    g = cfg_of(f)
    exits = admitting_exits(f)
    if not exits:
        rep.unknown("SA", f.decl, f, "admission predicate", "no admitting exit found (shape changed)")
        return
    for x, c in exits:
        n = g.node_for(x)
        if f.short == "DetailedPlacement::canSwap" and neighbour_shortcut(g, n):
            rep.holds("SA", x, f, "neighbour swap admitted (both cells stay in their common row)", "listed exception: same row")
            continue
        have = set()
        for gc_, val, _ast, _fl in (ctx.guards(f, x, derived=True) or []):
            if not isinstance(val, bool):
                continue
            t = compat_test(ctx, f, gc_, val)
            if t:
                have.add(t)
        missing = [p for p in pairs if p not in have]
        what = "admitting exit `return %s`" % pretty(c)[:60]
        if missing:
            rep.violation("SA", x, f, what,
                          "not dominated by an orientation-compatibility test for %s (tests found: %s): a cell can be admitted to a row "
                          "its polarity forbids" % (missing, sorted(have) or "none"),
                          key="%s|admits without orientation test %s" % (f.short, missing[0]))
        else:
            rep.holds("SA", x, f, what, "dominated by compatibility of %s" % sorted(have))


def check_region_choice(ctx, rep):
    prog = ctx.prog
    f = prog.func1(CQ + "RowReordering::runRegionChoice")
    g = cfg_of(f)
    recs = [x for x in walk(f.body) if x.get("kind") == "CXXMemberCallExpr" and callee_info(x)["qname"] == CQ + "RowReordering::runRegionChoice"]
    if not recs:
        rep.unknown("SA", f.decl, f, "region choice", "recursive evaluation not found (shape changed)")
        return
    # the (cell, row) pair being tried is the one handed to the y model just before the recursive evaluation
    want = None
    for y in walk(f.body):
        if y.get("kind") == "CXXMemberCallExpr" and callee_info(y)["name"] == "updateCellPos" and len(callee_info(y)["args"]) >= 2:
            from .common import expand_locals as _xl
            a0, a1 = _xl(ctx, f, canon(callee_info(y)["args"][0])), _xl(ctx, f, canon(callee_info(y)["args"][1]))
            if a1[0] == "call" and a1[1].endswith("rowY") and len(a1) >= 4:
                want = (pretty(a0), pretty(a1[3]))
    if want is None:
        rep.unknown("SA", f.decl, f, "region choice", "the tentative assignment ytopo_.updateCellPos(cell, rowY(row)) was not found (shape changed)")
        return
    for x in recs:
        n = g.node_for(x)
        have = set()
        for ast, val, _e in g.dom_edges(n):
            if isinstance(val, bool):
                t = compat_test(ctx, f, canon(ast), val)
                if t:
                    have.add(t)
        if want in have:
            rep.holds("SA", x, f, "candidate region evaluated only for compatible rows", "dominated by compatibility of %s" % (want,))
        else:
            rep.violation("SA", x, f, "candidate region evaluated without an orientation-compatibility test",
                          "tests found: %s; a reordering could move a cell into a forbidden row" % (sorted(have) or "none"),
                          key="RowReordering::runRegionChoice|admits without orientation test")


# ---- commits ---------------------------------------------------------------------------

def same_block(g, a, b):
    """Two CFG nodes execute together: same set of dominating edges and each reaches the other without a branch."""
    if a is None or b is None:
        return False
    if a is b:
        return True
    # control equivalence: one dominates the other and is post-dominated by it
    if g.dominates(a, b) and g.postdominates(b, a):
        return True
    if g.dominates(b, a) and g.postdominates(a, b):
        return True
    return False


def check_commits(ctx, rep, rid):
    prog = ctx.prog
    # ---- Abacus ----
    from .common import member_q
    ROWLIST = member_q(prog, CQ + "AbacusLegalizer", "rowToCells_", lambda t: "vector<std::vector<int" in t.replace(" ", "").replace("std::vector<std::vector<int", "vector<std::vector<int"))
    f = prog.func1(CQ + "AbacusLegalizer::placeCell")
    g = cfg_of(f)
    cellp = f.params[0]
    cv = ("var", cellp.get("id"), cellp.get("name"))
    pushes = [x for x in walk(f.body) if x.get("kind") == "CXXMemberCallExpr" and callee_info(x)["qname"] == CQ + "RowLegalizer::push"
              and ctx.eff.func_of_node(x) is f]
    if not pushes:
        rep.unknown(rid, f.decl, f, "Abacus commit", "no RowLegalizer::push in AbacusLegalizer::placeCell (shape changed)")
    for x in pushes:
        oc = canon(callee_info(x)["obj"])
        if oc[0] != "index":
            rep.unknown(rid, x, f, "Abacus commit", "row legalizer object is %s" % pretty(oc))
            continue
        R = oc[2]
        ok, why = witness_admitted(ctx, f, g, x, R, cv, CQ + "AbacusLegalizer::evaluatePlacement")
        # the placed flag and row list must accompany the push on the same row
        flag = [y for y in walk(f.body) if y.get("kind") in ("BinaryOperator", "CXXOperatorCallExpr") and
                _store_target(canon(y)) == ("index", ("field", CQ + "LegalizerBase::cellIsPlaced_", ("this",)), cv)]
        lst = [y for y in walk(f.body) if y.get("kind") == "CXXMemberCallExpr" and callee_info(y)["name"] in ("push_back", "emplace_back") and
               canon(callee_info(y)["obj"]) == ("index", ("field", ROWLIST, ("this",)), R)]
        together = flag and lst and same_block(g, g.node_for(x), g.node_for(flag[0])) and same_block(g, g.node_for(x), g.node_for(lst[0]))
        what = "commit %s.push" % pretty(oc)
        if not ok and R[0] != "var":
            # the committed row is not a local variable (a member of a local search-state object, a returned struct): the provenance
            # rule follows plain locals only
            rep.unknown(rid, x, f, what, why + " (the rule follows plain local candidate variables only)")
        elif not ok:
            rep.violation(rid, x, f, what, why, key="AbacusLegalizer::placeCell|commit not admitted")
        elif not together:
            rep.violation(rid, x, f, what, "the row push, the push of the cell into the row's cell list and cellIsPlaced_[cell] = true are not performed together on the same row",
                          key="AbacusLegalizer::placeCell|commit parts separated")
        else:
            rep.holds(rid, x, f, what, why)
    # every placed-flag store must be one of the commits
    n_flag = 0
    for y in walk(f.body):
        if y.get("kind") in ("BinaryOperator", "CXXOperatorCallExpr") and _store_target(canon(y)) and \
                _store_target(canon(y))[1] == ("field", CQ + "LegalizerBase::cellIsPlaced_", ("this",)):
            n_flag += 1
    if n_flag != len(pushes):
        rep.violation(rid, f.decl, f, "%d placed-flag store(s) for %d row push(es)" % (n_flag, len(pushes)),
                      "a cell marked placed must have consumed space in exactly one row", key="AbacusLegalizer::placeCell|flag/push mismatch")

    # ---- Tetris ----
    t = prog.func1(CQ + "TetrisLegalizer::placeCell")
    gt = cfg_of(t)
    cellp = t.params[0]
    cv = ("var", cellp.get("id"), cellp.get("name"))
    stores = {}
    for y in walk(t.body):
        if ctx.eff.func_of_node(y) is not t:
            continue
        if y.get("kind") in ("BinaryOperator", "CXXOperatorCallExpr"):
            tgt = _store_target(canon(y))
            if tgt and tgt[0] == "index" and tgt[1][0] == "field" and tgt[2] == cv:
                stores[tgt[1][1].split("::")[-1]] = y
    need = ["cellToX_", "cellToY_", "cellToOrientation_", "cellIsPlaced_"]
    if any(n not in stores for n in need):
        rep.unknown(rid, t.decl, t, "Tetris commit", "stores found: %s" % sorted(stores))
        return
    xs = canon(children(stores["cellToX_"])[1]) if stores["cellToX_"].get("kind") == "BinaryOperator" else None
    ys = canon(children(stores["cellToY_"])[1]) if stores["cellToY_"].get("kind") == "BinaryOperator" else None
    if xs is None or ys is None or xs[0] != "var" or ys[0] != "var":
        rep.unknown(rid, stores["cellToX_"], t, "Tetris commit", "stored position is not a candidate variable")
        return
    # witness: found
    flagn = gt.node_for(stores["cellIsPlaced_"])
    wit = None
    for ast, val, _e in gt.dom_edges(flagn):
        c = canon(ast)
        if c[0] == "var" and val is True:
            wit = c
    if wit is None:
        rep.violation(rid, stores["cellIsPlaced_"], t, "Tetris commit", "placed flag set without a dominating 'candidate found' witness",
                      key="TetrisLegalizer::placeCell|commit without witness")
        return
    problems = []
    asg = assignments_to(t, wit[1])
    trues = [(x, r) for x, r in asg if canon(r) == ("lit", True)]
    if not trues:
        problems.append("witness %s is never set" % wit[2])
    for x, r in trues:
        lf = ctx.eff.func_of_node(x)
        gl = cfg_of(lf)
        n = gl.node_for(x)
        src = None
        for ast, val, _e in gl.dom_edges(n):
            c = canon(ast)
            if c[0] == "var" and val is True:
                bs = binding_source(lf, c[1])
                if bs and bs[0][0] == "call" and bs[0][1] == CQ + "TetrisLegalizer::attemptPlacement" and bs[1] == 0:
                    src = bs
        if src is None:
            problems.append("witness set at %s without a dominating ok from attemptPlacement" % loc_str(x))
            continue
        call = src[0]
        if call[3] != cv:
            problems.append("attemptPlacement is asked about %s, not the cell being placed" % pretty(call[3]))
        yarg = call[4]
        # candidate variables assigned together with the witness, from the same attempt
        for var, expect, nm in ((xs, "x-binding", "x"), (ys, yarg, "y")):
            a2 = [(ax, ar) for ax, ar in assignments_to(t, var[1]) if ctx.eff.func_of_node(ax) is lf]
            tog = [(ax, ar) for ax, ar in a2 if same_block(gl, gl.node_for(ax), n)]
            if not tog or len(tog) != len(a2):
                problems.append("candidate %s is not assigned together with the witness" % var[2])
                continue
            val = canon(tog[0][1])
            if nm == "y" and val != expect:
                problems.append("candidate y is %s but the attempt was made at %s" % (pretty(val), pretty(expect)))
            if nm == "x":
                bs = binding_source(lf, val[1]) if val[0] == "var" else None
                if not (bs and bs[2] is src[2] and bs[1] == 1):
                    problems.append("candidate x is %s, not the position returned by the accepted attempt" % pretty(val))
    if problems:
        rep.violation(rid, stores["cellIsPlaced_"], t, "Tetris commit", "; ".join(problems[:3]), key="TetrisLegalizer::placeCell|commit not admitted")
    else:
        rep.holds(rid, stores["cellIsPlaced_"], t, "Tetris commit under witness %s" % wit[2],
                  "witness set only under ok of attemptPlacement(cell, y); candidate (x, y) assigned with it")


def _store_target(c):
    if c[0] == "bin" and c[1] == "=":
        return c[2]
    if c[0] == "op" and c[1] == "operator=":
        return c[2]
    return None


def witness_admitted(ctx, f, g, commit, R, cv, pred_q):
    """R (row used by the commit) must be a local candidate variable; the commit is dominated by R != <initial>;
    every assignment R = v is dominated by the ok result of pred_q(cell, v)."""
    if R[0] != "var":
        return False, "committed row %s is not a candidate variable established by the admission predicate" % pretty(R)
    d = f.unit.by_id.get(R[1])
    init = canon(children(d)[-1]) if d is not None and children(d) else None
    n = g.node_for(commit)
    excl = False
    for ast, val, _e in g.dom_edges(n):
        c = canon(ast)
        if c[0] == "bin" and c[1] in ("==", "!=") and c[2] == R and c[3] == init:
            if (c[1] == "==" and val is False) or (c[1] == "!=" and val is True):
                excl = True
    if not excl:
        return False, "commit is not dominated by %s != %s (no candidate found)" % (pretty(R), pretty(init) if init else "?")
    asg = assignments_to(f, R[1])
    if not asg:
        return False, "candidate row %s is never assigned" % pretty(R)
    for x, r in asg:
        lf = ctx.eff.func_of_node(x)
        gl = cfg_of(lf)
        nn = gl.node_for(x)
        v = canon(r)
        ok = False
        for ast, val, _e in gl.dom_edges(nn):
            c = canon(ast)
            if c[0] == "var" and val is True:
                bs = binding_source(lf, c[1])
                if bs and bs[0][0] == "call" and bs[0][1] == pred_q and bs[1] == 0 and bs[0][3] == cv and bs[0][4] == v:
                    ok = True
        if not ok:
            return False, "candidate row assigned at %s without a dominating ok from %s(cell, %s)" % (loc_str(x), short(pred_q), pretty(v))
    return True, "committed row is set only under ok of %s(cell, row); commit dominated by %s != %s" % (short(pred_q), pretty(R), pretty(init))


# ---- G7 ------------------------------------------------------------------------------

ORIENT_STATES = {CQ + "LegalizerBase::cellToOrientation_": CQ + "LegalizerBase::cellToY_",
                 CQ + "DetailedPlacement::cellOrientation_": CQ + "DetailedPlacement::cellY_"}


def check_g7(ctx, rep):
    prog = ctx.prog
    for f in prog.all_funcs(with_lambdas=False):
        for x in walk(f.body):
            if x.get("kind") not in ("BinaryOperator", "CXXOperatorCallExpr"):
                continue
            c = canon(x)
            tgt = _store_target(c)
            if not tgt or tgt[0] != "index" or tgt[1][0] != "field" or tgt[1][1] not in ORIENT_STATES:
                continue
            cell = tgt[2]
            owner = ctx.eff.func_of_node(x) or f
            val = expand_locals(ctx, owner, c[3])
            yfield = ORIENT_STATES[tgt[1][1]]
            # y store for the same cell in the same function
            ystores = []
            for y in walk(owner.body):
                if y.get("kind") in ("BinaryOperator", "CXXOperatorCallExpr"):
                    cy = canon(y)
                    ty = _store_target(cy)
                    if ty and ty[0] == "index" and ty[1][0] == "field" and ty[1][1] == yfield and ty[2] == cell and ty[1][2] == tgt[1][2]:
                        ystores.append((y, cy[3]))
            what = "%s[%s] = %s" % (tgt[1][1].split("::")[-1], pretty(cell), pretty(val)[:70])
            if val[0] == "call" and val[1] in ORIENT_FUNCS:
                pair = orient_call_pair(val)
                if pair is None or pair[0] not in (pretty(cell), pretty(expand_locals(ctx, owner, cell))):
                    rep.violation("G7", x, owner, what, "orientation computed for %s, stored for cell %s" % (pair, pretty(cell)),
                                  key="%s|orientation of another cell/row" % owner.short)
                    continue
                row = pair[1]
                if val[1] == CQ + "cellOrientationInRow":
                    # UNKNOWN (keep) must be excluded
                    guards = ctx.guards(owner, x) or []
                    excl = any(gc[0] == "bin" and gc[1] in ("!=", "==") and gc[3] == UNKNOWN_O and
                               ((gc[1] == "!=" and v is True) or (gc[1] == "==" and v is False)) for gc, v, _a, _b in guards)
                    if not excl:
                        rep.violation("G7", x, owner, what, "raw cellOrientationInRow value stored without excluding UNKNOWN (cells without polarity must keep their orientation)",
                                      key="%s|UNKNOWN orientation stored" % owner.short)
                        continue
                if not ystores:
                    rep.violation("G7", x, owner, what, "no y store for the same cell in this commit", key="%s|orientation without y" % owner.short)
                    continue
                yv = expand_locals(ctx, owner, ystores[0][1])
                yp = pretty(yv)
                okrow = (yv[0] == "field" and yv[1].endswith("minY") and yv[2][0] == "index" and pretty(yv[2][2]) == row) or \
                        (row == "LegalizerBase::closestRow(%s)" % yp) or \
                        (yv[0] == "call" and yv[1].endswith("rowY") and pretty(yv[3]) == row)
                if row == "LegalizerBase::closestRow(%s)" % yp:
                    # the row is looked up again from the y alone: closestRow answers the first (left-most) segment of that y, which is
                    # the segment the cell sits in only if all segments of one y share an orientation (finding F-C04b)
                    rep.violation("G7", x, owner, what, "the row is identified by its y alone (%s): of several row segments at that y the left-most one "
                                  "decides the orientation, whichever segment holds the cell" % row, key="%s|row identified by y alone" % owner.short)
                elif okrow:
                    rep.holds("G7", x, owner, what, "row %s is the row whose y (%s) is stored" % (row, yp))
                else:
                    rep.violation("G7", x, owner, what, "orientation comes from row %s but the stored y is %s" % (row, yp),
                                  key="%s|orientation row differs from y row" % owner.short)
            elif val[0] == "var" and ystores and canon(ystores[0][0])[3][0] == "var":
                # candidate variables: the orientation candidate must be assigned together with the y candidate, from the
                # orientation function of the row of that y
                ov, yv = val, canon(ystores[0][0])[3]
                top = owner.outer
                oas = assignments_to(top, ov[1])
                yas = assignments_to(top, yv[1])
                if not oas or not yas:
                    rep.unknown("G7", x, owner, what, "candidate variables are never assigned")
                    continue
                problems = []
                for ax, ar in oas:
                    lf = ctx.eff.func_of_node(ax)
                    gl = cfg_of(lf)
                    mates = [(bx, br) for bx, br in yas if ctx.eff.func_of_node(bx) is lf and same_block(gl, gl.node_for(ax), gl.node_for(bx))]
                    if not mates:
                        problems.append("orientation candidate assigned at %s separately from the y candidate: it can describe a different row than the one kept" % loc_str(ax))
                        continue
                    oc = expand_locals(ctx, lf, canon(ar))
                    yc = canon(mates[0][1])
                    pair = orient_call_pair(oc) if oc[0] == "call" and oc[1] in ORIENT_FUNCS else None
                    if pair is None or pair[1] != "LegalizerBase::closestRow(%s)" % pretty(yc):
                        problems.append("orientation candidate %s is not the orientation of the row of the y candidate %s" % (pretty(oc)[:60], pretty(yc)))
                if problems:
                    rep.violation("G7", x, owner, what, "; ".join(problems[:2]), key="%s|orientation candidate out of step with the position" % owner.short)
                else:
                    rep.holds("G7", x, owner, what, "orientation candidate assigned together with the y candidate, from the row of that y")
            elif val[0] == "index" and ystores and ystores[0][1][0] == "index" and val[2] == expand_locals(ctx, owner, ystores[0][1])[2]:
                rep.holds("G7", x, owner, what, "copied together with y from the same source index (sub-legalizer result)")
            else:
                rep.unknown("G7", x, owner, what, "orientation value is not the orientation function of a row nor a paired copy")


# ---- KO ------------------------------------------------------------------------------

def check_keep(ctx, rep):
    """Cells without polarity keep the orientation they had: getOrientation returns the *input* orientation when the
    polarity function says UNKNOWN, the input orientations are only ever copied from the constructor argument, and the result
    orientations start as a copy of the input."""
    prog, eff = ctx.prog, ctx.eff
    f = prog.func1(CQ + "LegalizerBase::getOrientation")
    g = cfg_of(f)
    cellp = f.params[0]
    want = ("index", ("field", CQ + "LegalizerBase::cellTargetOrientation_", ("this",)), ("var", cellp.get("id"), cellp.get("name")))
    kept = None
    for x in walk(f.body):
        if x.get("kind") == "ReturnStmt" and children(x):
            guards = ctx.guards(f, x) or []
            unk = any(expand_locals(ctx, f, gc)[0] == "bin" and gc[1] == "==" and gc[3] == UNKNOWN_O and val is True for gc, val, _a, _b in guards)
            unk = unk or any(gc[0] == "bin" and gc[1] == "!=" and gc[3] == UNKNOWN_O and val is False for gc, val, _a, _b in guards)
            if unk:
                kept = (x, canon(children(x)[0]))
    if kept is None:
        rep.unknown("KO", f.decl, f, "getOrientation", "no return under `== UNKNOWN` found")
    elif kept[1] == want:
        rep.holds("KO", kept[0], f, "without polarity getOrientation returns the cell's input orientation cellTargetOrientation_[cell]")
    else:
        rep.violation("KO", kept[0], f, "without polarity getOrientation returns %s" % pretty(kept[1]),
                      "cells without polarity must keep the orientation they had on input (cellTargetOrientation_[cell])",
                      key="LegalizerBase::getOrientation|kept orientation is not the input orientation")
    # the converse: with a polarity, every other exit of getOrientation returns what cellOrientationInRow prescribes (also INVALID,
    # which is what makes the legalizers skip the row) - no exit that answers with the incoming orientation for some other reason
    for x in walk(f.body):
        if x.get("kind") != "ReturnStmt" or not children(x):
            continue
        guards = ctx.guards(f, x) or []
        if any(expand_locals(ctx, f, gc)[0] == "bin" and gc[1] == "==" and gc[3] == UNKNOWN_O and val is True for gc, val, _a, _b in guards):
            continue
        if any(gc[0] == "bin" and gc[1] == "!=" and gc[3] == UNKNOWN_O and val is False for gc, val, _a, _b in guards):
            continue
        rc = expand_locals(ctx, f, canon(children(x)[0]))
        if rc[0] == "call" and rc[1].endswith("cellOrientationInRow"):
            rep.holds("KO", x, f, "with a polarity getOrientation returns cellOrientationInRow(polarity, row orientation)")
        else:
            rep.violation("KO", x, f, "getOrientation returns %s on a path where the row prescribes an orientation" % pretty(canon(children(x)[0]))[:80],
                          "only the answer UNKNOWN (no polarity) lets the cell keep its orientation; on this exit the prescribed orientation - or the verdict "
                          "INVALID that keeps the cell out of the row - is replaced", key="LegalizerBase::getOrientation|exit bypasses the orientation table")
    ws = [(ff, x, u) for ff, x, u in field_writes_local(ctx, CQ + "LegalizerBase::cellTargetOrientation_")]
    bad = [(ff, u) for ff, x, u in ws if not (ff.kind == "CXXConstructorDecl" and ff.cls == CQ + "LegalizerBase")]
    if bad:
        rep.violation("KO", bad[0][1].node, bad[0][0], "input orientations modified after construction", bad[0][1].why,
                      key="%s|writes cellTargetOrientation_" % bad[0][0].short)
    else:
        rep.holds("KO", "-", None, "cellTargetOrientation_ is written only by the LegalizerBase constructor")
    ctor = [c for c in prog.func(CQ + "LegalizerBase::LegalizerBase")]
    for c in ctor:
        init = [x for x in walk(c.body) if x.get("kind") in ("CXXOperatorCallExpr", "BinaryOperator") and _store_target(canon(x)) == ("field", CQ + "LegalizerBase::cellToOrientation_", ("this",))]
        others = [u for x, u in eff.summary(c)["writes"].get(CQ + "LegalizerBase::cellToOrientation_", []) if u.why not in ("operator=", "constructor initialiser")]
        # member initialisers: cellToOrientation_(src) with src the input orientations or what they were initialised from
        minit = {}
        for ci_ in c.ctor_inits:
            an = ci_.get("anyInit") or {}
            if an.get("name") and children(ci_):
                minit[an.get("name")] = canon(children(ci_)[-1])
        tgt_src = minit.get("cellTargetOrientation_")
        res_src = minit.get("cellToOrientation_")
        by_list = res_src is not None and not init and (res_src == ("field", CQ + "LegalizerBase::cellTargetOrientation_", ("this",)) or
                                                        (tgt_src is not None and res_src == tgt_src))
        if by_list and not others:
            rep.holds("KO", c.decl, c, "result orientations are initialised (member initialiser) from the same source as the input orientations")
        elif init and canon(init[0])[3] == ("field", CQ + "LegalizerBase::cellTargetOrientation_", ("this",)) and not others:
            rep.holds("KO", init[0], c, "result orientations start as a copy of the input orientations")
        else:
            rep.violation("KO", (init or [c.decl])[0], c, "result orientations are not initialised from the input orientations",
                          "a cell that no rule re-orients would not keep its orientation", key="LegalizerBase::LegalizerBase|orientation init")


def field_writes_local(ctx, q):
    from .common import field_writes
    return field_writes(ctx, q)


# ---- R2 ------------------------------------------------------------------------------

def check_r2(ctx, rep):
    prog = ctx.prog
    f = prog.func1(CQ + "DetailedPlacement::check")
    g = cfg_of(f)
    found = False
    for x in walk(f.body):
        if x.get("kind") == "CXXThrowExpr":
            n = g.node_for(x)
            for ast, val, _e in g.dom_edges(n):
                c = expand_locals(ctx, f, canon(ast))
                if c[0] == "bin" and c[1] == "==" and c[3] == INVALID and val is True and c[2][0] == "call" and c[2][1] in ORIENT_FUNCS:
                    found = True
    if found:
        rep.holds("R2", f.decl, f, "check() throws when the row gives INVALID for the cell's polarity")
    else:
        rep.violation("R2", f.decl, f, "check() accepts an INVALID expected orientation",
                      "no throw dominated by cellOrientationInRow(...) == INVALID", key="DetailedPlacement::check|accepts INVALID")


def check_polarity_provenance(ctx, rep):
    """PP. Each fromIspdCircuit builder of Legalizer / DetailedPlacement passes, as the std::vector<CellRowPolarity> argument of the
    model constructor, the circuit's polarities themselves: the member / accessor, or a local vector every write of which stores a
    circuit polarity read (cellRowPolarity_[c], cellRowPolarity()[c]). Storing a literal polarity or rewriting elements weakens
    the constraint the admission predicates later test."""
    prog = ctx.prog
    n = 0

    def is_circuit_polarity(c):
        if c[0] == "field" and str(c[1]).endswith("Circuit::cellRowPolarity_"):
            return True
        if c[0] == "call" and str(c[1]).endswith("Circuit::cellRowPolarity"):
            return True
        if c[0] == "index":
            return is_circuit_polarity(c[1])
        return False

    for f in prog.all_funcs(with_lambdas=False):
        if f.body is None or f.name != "fromIspdCircuit" or f.cls not in (CQ + "Legalizer", CQ + "DetailedPlacement"):
            continue
        ctors = [x for x in walk(f.body) if x.get("kind") in ("CXXConstructExpr", "CXXTemporaryObjectExpr") and
                 qt(x).replace("const ", "").split("::")[-1] in ("Legalizer", "DetailedPlacement") and len(children(x)) >= 5]
        for x in ctors:
            pol = [a for a in children(x) if "CellRowPolarity" in qt(a) and "vector" in qt(a)]
            if not pol:
                continue
            n += 1
            a = canon(pol[0])
            what = "%s passes %s as the cells' row polarities" % (f.short, pretty(a)[:50])
            if is_circuit_polarity(a):
                rep.holds("PP", x, f, what, "the circuit's own polarities")
                continue
            if a[0] != "var":
                rep.unknown("PP", x, f, what, "neither the circuit's polarities nor a local vector")
                continue
            d = f.unit.by_id.get(a[1])
            init = canon(children(d)[-1]) if d is not None and children(d) else None
            bad = []
            if init is not None and not is_circuit_polarity(init) and init[0] not in ("construct", "call", "lit"):
                bad.append("initialised from %s" % pretty(init)[:40])
            for y in walk(f.body):
                k = y.get("kind")
                if k == "CXXMemberCallExpr" and callee_info(y)["name"] in ("push_back", "emplace_back") and canon(callee_info(y)["obj"])[:2] == a[:2]:
                    v = canon(callee_info(y)["args"][0])
                    if not is_circuit_polarity(v):
                        bad.append("push of %s" % pretty(v)[:40])
                elif k in ("BinaryOperator", "CXXOperatorCallExpr"):
                    c = canon(y)
                    tgt = _store_target(c)
                    if tgt and tgt[0] == "index" and tgt[1][:2] == a[:2]:
                        v = c[3] if len(c) > 3 else ("none",)
                        if not is_circuit_polarity(v):
                            bad.append("element set to %s" % pretty(v)[:40])
            if bad:
                rep.violation("PP", x, f, what, "%s: the polarity the placer enforces is no longer the one the circuit declares" % "; ".join(bad[:3]),
                              key="%s|polarities rewritten" % f.short)
            else:
                rep.holds("PP", x, f, what, "a local copy filled only with the circuit's polarities")
    if n == 0:
        rep.unknown("PP", None, None, "model builders", "no fromIspdCircuit builder passing a polarity vector found (shape changed)")


def check_export_orientation(ctx, rep):
    """EO. Legalizer::exportPlacement / DetailedPlacement::exportPlacement store the orientation the algorithm chose for every
    placed movable cell. The store may depend on the cell being movable and placed (and on the loop / index bookkeeping), not on
    a test of something else: `only cells whose position changed` skips a cell that was already at a legal position but whose
    incoming orientation is not the one its row prescribes."""
    from .common import is_fixed_test
    prog, eff = ctx.prog, ctx.eff
    n = 0
    for q in ("Legalizer::exportPlacement", "DetailedPlacement::exportPlacement"):
        for f in prog.func(CQ + q, required=False) or []:
            s = eff.summary(f)
            for x, u in s["writes"].get(CQ + "Circuit::cellOrientation_", []):
                n += 1
                from .common import expand_locals
                pos, ori = [], False
                for gc, val, ast, _b in (ctx.guards(f, u.node) or []):
                    ge = expand_locals(ctx, f, gc)
                    fields = {t[1] for t in subterms(ge) if isinstance(t, tuple) and t and t[0] == "field"}
                    if CQ + "Circuit::cellOrientation_" in fields:
                        ori = True
                    if fields & {CQ + "Circuit::cellX_", CQ + "Circuit::cellY_"}:
                        pos.append((gc, val))
                what = "%s stores Circuit::cellOrientation_" % f.short
                if not pos:
                    rep.holds("EO", u.node, f, what, "under no condition on the cell's current position")
                elif ori:
                    rep.unknown("EO", u.node, f, what, "under a condition that compares positions and orientations: not analysed")
                else:
                    rep.violation("EO", u.node, f, what, "only under %s, a test of the cell's current position: a cell that is already at a legal "
                                  "position keeps its incoming orientation, whatever its row prescribes" % [pretty(gc)[:60] + ("" if v else " [false]") for gc, v in pos],
                                  key="%s|orientation exported only for moved cells" % f.short)
    if n == 0:
        rep.unknown("EO", None, None, "orientation write-back", "no store to Circuit::cellOrientation_ found in the export functions (shape changed)")
