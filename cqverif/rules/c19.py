"""C19 — invalid inputs are refused with an error, not undefined behaviour.

B1   every subscript of a fixed-size array by a non-constant index is bounded inside
     the array by the branch edges (and guard helpers) that dominate it
B2   every assert-precondition of the effort interpolation helpers is discharged at
     each call site by dominating run-time guards (asserts vanish under NDEBUG / abort otherwise)
G17  Circuit methods that install a per-cell / per-net vector compare its size with
     nbCells() / nbNets() and throw, before any member write
G18  addNet / setNets: every pin's cell index is range-checked (throwing) in a loop
     that completes before pins are stored; net limits are validated by throw
G18b no input validation by assert() in public Circuit mutators
P2   params.check() first (shared with C10)
T4   the parameters built for each effort 1..9 pass their own check() (constant folding of the constructors and checks)
"""
import math

from ..frontend import AnalysisBroken
from ..model import desugared, qt, loc_str, walk, inner
from ..expr import canon, pretty, children, strip, callee_info, subterms, CALL_KINDS, ref_decl
from ..cfg import cfg_of
from ..intervals import eval_int, eval_cond, env_at, env_at_node, refine, TOP, INF
from .common import CQ, short, calls_to, vars_in, var_write_nodes
from . import c10

EXPLANATION = (
    "Static input-validation check on the clang-resolved AST. B1: for every ArraySubscriptExpr whose base has a constant array "
    "type and whose index is not a literal, the index is evaluated as an interval under the comparisons that edge-dominate the "
    "subscript (including one-level summaries of guard helpers: 'returns only if p in [a,b]'); the interval must lie inside "
    "[0, N-1]. B2: the assert()s of the effort-interpolation helpers are treated as preconditions and must evaluate to true under "
    "the intervals established by throwing guards at every (transitive) call site. G17/G18: public Circuit mutators compare the "
    "length of every vector they install with nbCells()/nbNets() and range-check every pin's cell index, by throw, on a path that "
    "dominates all member writes; G18b: no assert() on parameter-derived conditions in public Circuit mutators. "
    "P2: params.check() is the first library call of the three algorithm entry points. "
    "T4: concrete constant folding (binary32/binary64 kept apart) of ColoquinteParameters(e) and ColoquinteParameters::check() "
    "for e = 1..9 reaches no throw and no failing assert.")

DECLINED = ["exception *type* and message text", "validation of row geometry (overlapping rows are not in the property's list)"]

PER_CELL = ["cellX_", "cellY_", "cellIsFixed_", "cellIsObstruction_", "cellOrientation_", "cellRowPolarity_", "cellWidth_",
            "cellHeight_"]
PER_NET = ["netWeights_"]
NET_BUILDERS = ["Circuit::addNet", "Circuit::setNets"]


def run(ctx, rep, tier):
    prog, eff = ctx.prog, ctx.eff
    rep.rule("B1", "fixed-size array subscripts bounded by dominating guards (interval evaluation)", min_instances=3)
    rep.rule("B2", "assert-preconditions of effort helpers discharged by throwing guards at every call site", min_instances=4)
    rep.rule("G17", "vector length compared with nbCells()/nbNets() (throw) before any member write", min_instances=10)
    rep.rule("G18", "pin cell indices and net limits validated by throw before pins are stored", min_instances=3)
    rep.rule("G18b", "no assert()-based validation of arguments in public Circuit mutators", min_instances=1)
    rep.rule("P2", "params.check() first in the algorithm entry points", min_instances=3)
    rep.rule("VB", "a throwing validation never reads a member the same function has already overwritten (rejected calls leave the object unchanged)", 0)
    rep.rule("VP", "no parameter bound is tested through a 32-bit product that can wrap (expected count 0)", 0)
    rep.rule("FP", "the parameter check bounds each overlap by the window size of its own family", 3)
    rep.rule("T4", "ColoquinteParameters(e) passes its own check for every effort e in 1..9", min_instances=9)
    check_b1(ctx, rep)
    check_b2(ctx, rep)
    check_g17(ctx, rep)
    check_solution_args(ctx, rep)
    check_g18(ctx, rep)
    from . import c19_defaults
    c19_defaults.run(ctx, rep)
    from .c07 import check_vb
    check_vb(ctx, prog, rep, False, "VB")
    # ER: a parameter check never leaves normally before its last validation
    rep.rule("ER", "no *Parameters::check() returns before its last throwing test or nested check() (an early exit accepts whatever the skipped tests refuse)", 3)
    ner = 0
    for f_ in prog.all_funcs(with_lambdas=False):
        if f_.body is None or f_.name != "check" or not (f_.cls or "").endswith("Parameters"):
            continue
        ner += 1
        ret = None
        skipped = None
        for x in walk(f_.body):
            k = x.get("kind")
            if k == "ReturnStmt" and ret is None:
                ret = x
            elif ret is not None and skipped is None and (k == "CXXThrowExpr" or (k == "CXXMemberCallExpr" and callee_info(x)["name"] == "check")):
                skipped = x
        if ret is not None and skipped is not None:
            rep.violation("ER", ret, f_, "%s returns before later validations" % f_.short,
                          "the tests after %s (first one at %s) are not run on that path: a parameter set they refuse is accepted there"
                          % (loc_str(ret), loc_str(skipped)), key="%s|early return" % f_.short)
        else:
            rep.holds("ER", f_.decl, f_, "%s runs every validation on every normal path (no return before a later test)" % f_.short)
    if ner == 0:
        rep.unknown("ER", None, None, "parameter checks", "no *Parameters::check function found")
    # VP: a bound tested through a 32-bit product of two parameters wraps for large values and lets them through
    nvp = 0
    for f_ in prog.all_funcs(with_lambdas=False):
        if f_.body is None or f_.name != "check" or not (f_.cls or "").endswith("Parameters"):
            continue
        nvp += 1
        for x in walk(f_.body):
            if x.get("kind") == "BinaryOperator" and x.get("opcode") == "*" and \
                    ((x.get("type") or {}).get("qualType") or "").replace("const ", "") in ("int", "unsigned int") and \
                    all(canon(c_)[0] != "lit" for c_ in children(x)):
                rep.violation("VP", x, f_, "%s validates through the 32-bit product %s" % (f_.short, pretty(canon(x))[:50]),
                              "for large parameter values the product overflows (undefined; in practice it wraps to a small or negative number) and the "
                              "bound accepts them: the stage then runs with a parameter set that must be refused",
                              key="%s|validation through a wrapping product" % f_.short)
    if nvp == 0:
        rep.unknown("VP", None, None, "parameter checks", "no *Parameters::check function found")
    elif not any(i["rule"] == "VP" for i in rep.instances):
        rep.holds("VP", "src/parameters.cpp", None, "no bound of the %d parameter checks is tested through a 32-bit product of two parameters" % nvp)
    from .common import check_family_pairing
    cf = [f_ for f_ in prog.all_funcs(with_lambdas=False) if f_.cls == CQ + "RoughLegalizationParameters" or
          (f_.unit.name.endswith("parameters.cpp") and f_.cls is None)]
    if check_family_pairing(ctx, rep, "FP", cf, CQ + "RoughLegalizationParameters") == 0:
        rep.unknown("FP", None, None, "overlap < size checks", "no comparison of a window size with an overlap found in the parameter check (shape changed)")
    p2_set = {CQ + q for q in c10.CHECK_FIRST}
    for q in c10.CHECK_FIRST:
        c10.check_params_first(ctx, rep, prog.func1(CQ + q), p2_set)


# ---- B1 ------------------------------------------------------------------

def array_len(t):
    t = t.strip()
    if t.endswith("]") and "[" in t:
        try:
            return int(t[t.rfind("[") + 1:-1])
        except ValueError:
            return None
    return None


def stable_env(ctx, f, env):
    """Drop bounds on variables that the function may modify (the guard would not speak about the value used)."""
    out = {}
    for vid, iv in env.items():
        if not var_write_nodes(ctx, f, [vid]):
            out[vid] = iv
    return out


def check_b1(ctx, rep):
    for f in ctx.prog.all_funcs(with_lambdas=False):
        for x in walk(f.body):
            if x.get("kind") != "ArraySubscriptExpr":
                continue
            base, idx = children(x)
            b = strip(base)
            n = array_len(qt(b)) if b else None
            if n is None:
                continue
            ic = canon(idx)
            if ic[0] == "lit":
                v = eval_int(ic, {})
                if 0 <= v[0] <= n - 1:
                    continue
            owner = ctx.eff.func_of_node(x) or f
            env = env_at(ctx, owner, x)
            if env is None:
                rep.unknown("B1", x, owner, "subscript %s" % pretty(canon(x)), "no CFG node")
                continue
            env = stable_env(ctx, owner, env)
            lo, hi = eval_int(ic, env)
            what = "%s (array of %d)" % (pretty(canon(x)), n)
            if lo >= 0 and hi <= n - 1:
                rep.holds("B1", x, owner, what, "index in [%s, %s]" % (lo, hi))
            else:
                rep.violation("B1", x, owner, what,
                              "index %s is only known to lie in [%s, %s] here: out-of-bounds read for some argument values "
                              "(the range check, if any, runs later)" % (pretty(ic), lo, hi),
                              key="%s|unbounded subscript of %s" % (owner.short, pretty(canon(base))))


# ---- B2 ------------------------------------------------------------------

def assert_edges(func):
    """(condition canon, required value, ast) for every assert in func."""
    g = cfg_of(func)
    out = []
    seen = set()
    for n in g.nodes:
        if n.kind == "edge" and n.from_assert and isinstance(n.val, bool):
            # the assert passes along the edge that does NOT lead to the noreturn call
            leads_abort = _leads_to_abort(g, n)
            if leads_abort:
                continue
            key = (id(n.ast), n.val)
            if key in seen:
                continue
            seen.add(key)
            out.append((canon(n.ast), n.val, n.ast, n))
    return out


def _leads_to_abort(g, edge):
    # an assert edge whose only continuation is the abort exit
    seen, stack = set(), [edge]
    while stack:
        x = stack.pop()
        if x.idx in seen:
            continue
        seen.add(x.idx)
        if x is g.exit or x is g.raise_:
            return False
        for s in x.succ:
            if s is g.abort:
                continue
            if s.kind in ("edge", "cond", "join") or s is g.exit or len(seen) < 3:
                stack.append(s)
            else:
                return False
    return True


def default_arg_value(p):
    ch = children(p)
    if ch:
        return canon(ch[-1])
    return None


def check_b2(ctx, rep):
    prog = ctx.prog
    helpers = [f for f in prog.funcs.values() if "(anonymous namespace)" in f.qname and
               f.unit.name.endswith("parameters.cpp") and f.lam_parent is None]
    with_pre = {}
    for h in helpers:
        ae = [a for a in assert_edges(h) if vars_in(a[0]) & {p.get("id") for p in h.params}]
        if ae:
            with_pre[h.key] = ae
    # transitive: helpers that pass their parameters to helpers with preconditions
    if not with_pre:
        rep.note("no assert-preconditions in the effort helpers any more")
    callers = [f for f in prog.funcs.values() if f.unit.name.endswith("parameters.cpp") or True]
    count = 0
    for f in callers:
        if f.key in with_pre or f in helpers:
            continue
        for call, ci, fs in ctx.eff.summary(f)["calls"]:
            for h in fs:
                if h in helpers:
                    count += 1
                    env = env_at(ctx, f, call) or {}
                    env = stable_env(ctx, f, env)
                    fails = discharge(ctx, h, call, ci, env, with_pre, helpers, 0)
                    what = "call %s" % pretty(canon(call))[:90]
                    if fails:
                        c, why = fails[0]
                        rep.violation("B2", call, f, what,
                                      "assert(%s) in %s is not implied by any throwing guard before the call (%s): "
                                      "aborts with assertions on, silently extrapolates with NDEBUG" % (pretty(c), why[0], why[1]),
                                      key="%s|unguarded call of %s" % (f.short, h.short))
                    else:
                        rep.holds("B2", call, f, what, "all assert-preconditions implied by dominating guards")
    if count == 0:
        rep.note("effort helpers are not called from outside any more")


def discharge(ctx, h, call, ci, env_caller, with_pre, helpers, depth):
    """Evaluate the asserts of helper h (and of helpers it calls) for this call. Returns list of failures."""
    if depth > 6:
        return [(("lit", "?"), (h.short, "helper recursion too deep"))]
    envh = {}
    args = list(ci["args"])
    for i, p in enumerate(h.params):
        if i < len(args) and args[i].get("kind") != "CXXDefaultArgExpr":
            ac = canon(args[i])
            iv = eval_int(ac, env_caller)
        else:
            dv = default_arg_value(p)
            iv = eval_int(dv, {}) if dv is not None else TOP
        envh[p.get("id")] = iv
    fails = []
    g = cfg_of(h)
    for c, val, ast, edge in with_pre.get(h.key, []):
        # environment at the assert inside h: parameter bounds + dominating real guards in h
        env = dict(envh)
        for d in reversed(g.dominators(edge)):
            if d.kind == "edge" and not d.from_assert and isinstance(d.val, bool):
                env = refine(env, canon(d.ast), d.val)
        r = eval_cond(c, env)
        if r is not val:
            ivs = ", ".join("%s in [%s,%s]" % (p.get("name"), envh[p.get("id")][0], envh[p.get("id")][1])
                            for p in h.params if p.get("id") in vars_in(c))
            fails.append((c if val else ("un", "!", c), (h.short, ivs)))
    for call2, ci2, fs2 in ctx.eff.summary(h)["calls"]:
        for h2 in fs2:
            if h2 in helpers and h2.key != h.key:
                fails += discharge(ctx, h2, call2, ci2, envh, with_pre, helpers, depth + 1)
    return fails


# ---- G17 -----------------------------------------------------------------

def size_check_of(c, val):
    """If (c, val) states `P.size() == nbCells()/nbNets()`, return (P canon, 'cells'|'nets')."""
    if c[0] != "bin" or c[1] not in ("==", "!="):
        return None
    if (c[1] == "==") != (val is True):
        return None
    for a, b in ((c[2], c[3]), (c[3], c[2])):
        if a[0] == "call" and a[1] == "size" and b[0] == "call" and b[1] in (CQ + "Circuit::nbCells", CQ + "Circuit::nbNets"):
            return a[2], ("cells" if b[1].endswith("nbCells") else "nets")
    return None


def check_g17(ctx, rep, rid="G17", fields=None):
    prog, eff = ctx.prog, ctx.eff
    per_cell = {CQ + "Circuit::" + f for f in (PER_CELL if fields is None else fields)}
    per_net = {CQ + "Circuit::" + f for f in (PER_NET if fields is None else ())}
    for f in prog.funcs.values():
        if f.cls != CQ + "Circuit" or f.kind != "CXXMethodDecl" or f.is_const or f.is_static:
            continue
        if f.short in NET_BUILDERS:
            continue
        vparams = [p for p in f.params if "vector<" in qt(p) or "PlacementSolution" in qt(p)]
        if not vparams:
            continue
        s = eff.summary(f)
        written = (set(s["writes"]) | set(s["escapes"]))
        tgt = written & (per_cell | per_net)
        if not tgt:
            continue
        g = cfg_of(f)
        for p in vparams:
            want = "nets" if (tgt & per_net) and not (tgt & per_cell) else "cells"
            pc = ("var", p.get("id"), p.get("name"))
            # all member writes
            bad = None
            nwrites = 0
            for q in sorted(written):
                if not q.startswith(CQ + "Circuit::"):
                    continue
                for x, u in s["writes"].get(q, []) + s["escapes"].get(q, []):
                    nwrites += 1
                    guards = ctx.guards(f, u.node) or []
                    ok = False
                    for gc, val, _a, _as in guards:
                        sc = size_check_of(gc, val)
                        if sc and sc[0] == pc and sc[1] == want:
                            ok = True
                    if not ok:
                        bad = (q, u.node)
                        break
                if bad:
                    break
            what = "%s(%s)" % (f.short, p.get("name"))
            if bad:
                rep.violation(rid, bad[1], f, what,
                              "write to %s is not dominated by a throwing check %s.size() == nb%s()" % (
                                  short(bad[0]), p.get("name"), "Cells" if want == "cells" else "Nets"),
                              key="%s|no length check of %s" % (f.short, p.get("name")))
            else:
                rep.holds(rid, f.decl, f, what, "size == nb%s() dominates %d member write(s)" % ("Cells" if want == "cells" else "Nets", nwrites))


def check_solution_args(ctx, rep):
    """G17b. A PlacementSolution is per-cell by type. A Circuit method that reads the elements of a PlacementSolution argument does so
    only after a throwing comparison of its size with nbCells() (so that every later loop over the cells, in this function or in
    its callers, stays inside it); a method that merely forwards the argument is covered by its callee."""
    prog = ctx.prog
    n = 0
    for f in prog.funcs.values():
        if f.cls != CQ + "Circuit" or f.kind != "CXXMethodDecl" or f.body is None:
            continue
        for p in f.params:
            if "PlacementSolution" not in qt(p) and "vector<coloquinte::CellPlacement" not in (desugared(p) or ""):
                continue
            pc = ("var", p.get("id"), p.get("name"))
            reads = []
            for r in ctx.eff.var_refs(f, p.get("id")):
                par = r.get("_p")
                while par is not None and par.get("kind") in ("ImplicitCastExpr", "ParenExpr"):
                    par = par.get("_p")
                if par is None:
                    continue
                k = par.get("kind")
                if k == "CXXOperatorCallExpr" and callee_info(par)["name"] == "operator[]":
                    reads.append(par)
                elif k == "MemberExpr" and par.get("name") in ("at", "begin", "end", "front", "back", "data"):
                    reads.append(par)
                elif k in ("DeclStmt", "VarDecl") and (r.get("_p") or {}).get("kind") != "CallExpr":
                    gp = par
                    while gp is not None and gp.get("kind") not in ("CXXForRangeStmt", "CompoundStmt"):
                        gp = gp.get("_p")
                    if gp is not None and gp.get("kind") == "CXXForRangeStmt":
                        reads.append(gp)
            if not reads:
                continue
            n += 1
            bad = None
            for x in reads:
                ok = False
                for gc, val, _a, _as in (ctx.guards(f, x) or []):
                    sc = size_check_of(gc, val)
                    if sc and sc[0] == pc and sc[1] == "cells":
                        ok = True
                if not ok:
                    bad = x
                    break
            what = "%s reads the elements of its PlacementSolution argument %s" % (f.short, p.get("name"))
            if bad is None:
                rep.holds("G17", f.decl, f, what, "only after a throwing check %s.size() == nbCells()" % p.get("name"))
            else:
                rep.violation("G17", bad, f, what, "without a dominating throwing comparison of %s.size() with nbCells(): a solution of another length "
                              "is read (here or by the callers that loop over the cells) out of bounds" % p.get("name"),
                              key="%s|solution %s read without length check" % (f.short, p.get("name")))
    return n


# ---- G18 -----------------------------------------------------------------

def check_g18(ctx, rep):
    prog, eff = ctx.prog, ctx.eff
    # G18b: asserts on parameters in public non-const Circuit methods
    nb = 0
    for f in prog.funcs.values():
        if f.cls != CQ + "Circuit" or f.kind != "CXXMethodDecl" or f.is_const or f.is_static:
            continue
        pids = {p.get("id") for p in f.params}
        if not pids:
            continue
        ae = [a for a in assert_edges(f) if vars_in(a[0]) & pids]
        nb += 1
        if ae:
            c, val, ast, _e = ae[0]
            rep.violation("G18b", ast, f, "argument validated by assert()",
                          "%d assert(s) on arguments, e.g. assert(%s): aborts (assertions on) or is skipped (NDEBUG) instead of a catchable error" % (
                              len(ae), pretty(c)),
                          key="%s|assert-based argument validation" % f.short)
        else:
            rep.holds("G18b", f.decl, f, "no assert() on arguments")
    for q in NET_BUILDERS:
        f = prog.func1(CQ + q)
        check_pin_validation(ctx, rep, f)
    check_limits_validation(ctx, rep, prog.func1(CQ + "Circuit::setNets"))


def check_limits_validation(ctx, rep, f):
    """setNets: the net limits are validated pairwise over the *whole* vector (every adjacent pair compared, throwing when
    decreasing), the first limit is 0 and the last equals the number of pins, all before netLimits_ is written."""
    from .c06 import poly
    from .common import for_loop_info, expand_locals
    g = cfg_of(f)
    lim = [p for p in f.params if p.get("name") == "limits"]
    if not lim:
        # role-based fallback: the first vector<int> parameter of setNets (pin storage is the second)
        vi = [p for p in f.params if "vector<int>" in qt(p)]
        lim = vi[:1] if len(vi) >= 2 else []
    if not lim:
        rep.unknown("G18", f.decl, f, "net limits", "limits parameter not identified")
        return
    lv = ("var", lim[0].get("id"), lim[0].get("name"))
    atoms = {"N": lambda c: c == ("call", "size", lv)}
    covered = None
    problems = []
    for x in walk(f.body):
        if x.get("kind") != "ForStmt":
            continue
        li = for_loop_info(x)
        if not li or li["hi"] is None or li["step"] != 1:
            continue
        hi = poly(expand_locals(ctx, f, li["hi"]), atoms)
        lo = poly(li["lo"], atoms) if li["lo"] is not None else None
        if hi is None or lo is None or set(hi) - {(), ("N",)} or set(lo) - {()}:
            continue
        incn = g.node_for(li["inc"])
        iv = li["var"]
        for ast, val, _e in g.dom_edges(incn):
            c = canon(ast)
            if c[0] != "bin" or c[1] not in ("<", ">", "<=", ">="):
                continue
            sides = []
            for t in (c[2], c[3]):
                if t[0] == "index" and t[1] == lv:
                    pi = poly(t[2], {"i": lambda cc: cc == iv})
                    if pi is not None and pi.get(("i",), 0) == 1.0 and not (set(pi) - {(), ("i",)}):
                        sides.append(int(pi.get((), 0)))
                    else:
                        sides.append(None)
                else:
                    sides.append(None)
            if None in sides or abs(sides[0] - sides[1]) != 1:
                continue
            a, b = sides
            # the fall-through must imply limits[low] <= limits[low + 1]
            lowfirst = a < b
            op = c[1]
            implied = (op == ">" and lowfirst and val is False) or (op == "<" and not lowfirst and val is False) or \
                      (op == "<=" and lowfirst and val is True) or (op == ">=" and not lowfirst and val is True)
            if not implied:
                continue
            off = min(a, b)
            first = lo.get((), 0) + off
            last_c = hi.get((), 0) - 1 + off          # constant part of the last lower index
            last_n = hi.get(("N",), 0)
            done = [n for n in g.nodes if n.kind == "edge" and n.val is False and n.ast is strip(list(inner(x))[2])]
            covered = (first, last_n, last_c, done[0] if done else None, x)
    sorted_by_algo = False
    if covered is None:
        # std::is_sorted over the whole vector (possibly inside a validation helper) checks every adjacent pair
        want = ("call", "is_sorted", ("none",), ("call", "begin", lv), ("call", "end", lv))
        ws0 = ctx.eff.summary(f)["writes"].get(CQ + "Circuit::netLimits_", [])
        for _x, u in ws0:
            for gc, val, _a, _b in (ctx.guards(f, u.node) or []):
                neg = False
                while gc[0] == "un" and gc[1] == "!":
                    gc, neg = gc[2], not neg
                if gc[:2] == want[:2] and gc[-2:] == want[-2:] and (val is not neg):
                    sorted_by_algo = True
        if sorted_by_algo:
            covered = (0, 1.0, -2, "algo", f.decl)
    if covered is None:
        rep.violation("G18", f.decl, f, "net limits are not validated pairwise", "no loop that throws unless limits[k] <= limits[k+1]",
                      key="Circuit::setNets|limits monotonicity not validated")
        return
    first, last_n, last_c, done, loop = covered
    if not (first == 0 and last_n == 1.0 and last_c == -2):
        rep.violation("G18", loop, f, "net-limit validation does not cover every adjacent pair",
                      "pairs (k, k+1) are checked for k from %d to %s%+d; all of 0 .. limits.size()-2 are required: an undetected decrease lets a net "
                      "claim pins beyond the pin arrays" % (first, "limits.size()" if last_n else "", last_c),
                      key="Circuit::setNets|limits validation incomplete")
        return
    # front == 0, back == pins, and everything before the first write to netLimits_
    s = ctx.eff.summary(f)
    ws = s["writes"].get(CQ + "Circuit::netLimits_", [])
    okdom = done == "algo" or (done is not None and all(g.dominates(done, g.node_for(u.node)) for _x, u in ws))
    ends = {"front": False, "back": False}
    vparams = {p.get("id") for p in f.params if "vector" in qt(p) and p.get("id") != lv[1]}
    for _x, u in ws:
        for gc, val, _a, _b in (ctx.guards(f, u.node) or []):
            if gc[0] != "bin" or gc[1] not in ("==", "!="):
                continue
            if not ((gc[1] == "!=" and val is False) or (gc[1] == "==" and val is True)):
                continue
            sides = (expand_locals(ctx, f, gc[2]), expand_locals(ctx, f, gc[3]))
            for a, b in (sides, sides[::-1]):
                if a == ("call", "front", lv) and b[0] == "lit" and str(b[1]).rstrip("uUlL") == "0":
                    ends["front"] = True
                if a == ("call", "back", lv) and b[0] == "call" and b[1] == "size" and b[2][0] == "var" and b[2][1] in vparams:
                    ends["back"] = True
    if okdom and all(ends.values()):
        rep.holds("G18", loop, f, "net limits: first == 0, every adjacent pair non-decreasing, last == number of pins, all before anything is stored")
    else:
        rep.violation("G18", loop, f, "net limits are not fully validated before they are stored",
                      "pairwise loop completes before the store: %s; front()==0 checked: %s; back()==<pin vector>.size() checked: %s" % (okdom, ends["front"], ends["back"]),
                      key="Circuit::setNets|limits validation not before store")


def check_pin_validation(ctx, rep, f):
    """Every write to pinCells_ must be dominated by the normal completion of a loop over the
    `cells` argument in which each element e is compared with 0 and nbCells(), throwing on failure."""
    eff = ctx.eff
    g = cfg_of(f)
    s = eff.summary(f)
    q = CQ + "Circuit::pinCells_"
    writes = s["writes"].get(q, []) + s["escapes"].get(q, [])
    if not writes:
        rep.unknown("G18", f.decl, f, "pin storage", "no write to pinCells_ found in %s (shape changed)" % f.short)
        return
    cells_p = [p for p in f.params if p.get("name") == "cells"]
    if not cells_p:
        # role-based fallback: the parameter that is stored into pinCells_
        for x, u in writes:
            for t in subterms(canon(u.node)):
                for p in f.params:
                    if t[0] == "var" and t[1] == p.get("id") and "vector<int>" in qt(p) and p not in cells_p:
                        cells_p.append(p)
    if not cells_p:
        rep.unknown("G18", f.decl, f, "pin storage", "the parameter holding the pins' cells was not identified")
        return
    cp = cells_p[0]
    loops = validated_loops(ctx, f, cp)
    bad = []
    for x, u in writes:
        n = g.node_for(u.node)
        ok = False
        for done_edge in loops:
            if g.dominates(done_edge, n):
                ok = True
        if not ok:
            bad.append(u.node)
    if bad:
        rep.violation("G18", bad[0], f, "pins stored without validating their cell indices",
                      "no loop over `cells` that throws unless 0 <= cell < nbCells() completes before pinCells_ is written"
                      " (%d validating loop(s) found)" % len(loops),
                      key="%s|pin cell indices not validated" % f.short)
    else:
        rep.holds("G18", f.decl, f, "pin cell indices validated before storage", "%d write(s) dominated by a validating loop" % len(writes))


def validated_loops(ctx, f, cells_param, _depth=0):
    """'done' edges of loops over cells_param whose body falls through only when 0 <= elem < nbCells(); a call that hands the
    vector to a helper which runs such a loop on every normal path counts as well (the call's CFG node is returned)."""
    g = cfg_of(f)
    out = []
    pid = cells_param.get("id")
    out += _algorithm_validations(ctx, f, g, pid, cells_param.get("name"))
    for x in walk(f.body):
        k = x.get("kind")
        if k in ("CXXMemberCallExpr", "CallExpr") and _depth < 2:
            ci = callee_info(x)
            if ci and any(canon(a)[:2] == ("var", pid) for a in ci["args"]):
                _c, hs = ctx.eff.resolve_callee(x)
                for h in hs:
                    if h.body is None or h.key == f.key:
                        continue
                    for j, a in enumerate(ci["args"]):
                        if canon(a)[:2] == ("var", pid) and j < len(h.params):
                            hg = cfg_of(h)
                            for de in validated_loops(ctx, h, h.params[j], _depth + 1):
                                if hg.exit.idx not in hg.reachable_from([hg.entry], avoid=[de]):
                                    n = g.node_for(x)
                                    if n is not None:
                                        out.append(n)
        if k == "CXXForRangeStmt":
            ch = list(inner(x))
            try:
                var = inner(ch[6])[0]
                rinit = var.get("_rangevar")
            except (IndexError, AttributeError):
                continue
            if rinit is None or canon(rinit) != ("var", pid, cells_param.get("name")):
                continue
            elem = ("var", var.get("id"), var.get("name"))
            elem_alt = ("elem", ("var", pid, cells_param.get("name")), var.get("id"))
            inc = ch[5]
            incn = g.node_for(inc)
            done = [n for n in g.nodes if n.kind == "edge" and n.ast is x and n.val == "done"]
            if incn is None or not done:
                continue
            if _bounded_fallthrough(ctx, f, g, incn, (elem, elem_alt)):
                out.append(done[0])
        elif k == "ForStmt":
            ch = list(inner(x))
            if len(ch) < 5:
                continue
            cond, inc = ch[2], ch[3]
            if not cond.get("kind") or not inc.get("kind"):
                continue
            cc = canon(cond)
            # for (i = 0; i < cells.size(); ++i)
            if cc[0] != "bin" or cc[1] not in ("<", "!="):
                continue
            iv = cc[2]
            bound = cc[3]
            if iv[0] != "var" or not (bound[0] == "call" and bound[1] == "size" and bound[2] == ("var", pid, cells_param.get("name"))):
                continue
            elem = ("index", ("var", pid, cells_param.get("name")), iv)
            incn = g.node_for(inc)
            falses = [n for n in g.nodes if n.kind == "edge" and n.ast is strip(cond) and n.val is False]
            if incn is None or not falses:
                continue
            # also accept a local copy `int c = cells[i]`
            alts = [elem]
            for y in walk(ch[4]):
                if y.get("kind") == "VarDecl" and children(y) and canon(children(y)[-1]) == elem:
                    alts.append(("var", y.get("id"), y.get("name")))
            if _bounded_fallthrough(ctx, f, g, incn, tuple(alts)):
                out.append(falses[0])
    return out


def _algorithm_validations(ctx, f, g, pid, pname):
    """Edges of f's CFG that are taken only when every element of the vector parameter pid lies in [0, nbCells()): the false edge
    of `any_of(v.begin(), v.end(), [](int c) { return c < 0 || c >= nbCells(); })` (directly as a condition, or through a bool local
    initialised with it), the true edge of the corresponding none_of / all_of with the negated predicate."""
    out = []
    vc = ("var", pid, pname)
    nb = ("call", CQ + "Circuit::nbCells", ("this",))
    for n in g.nodes:
        if n.kind != "edge" or n.ast is None or not isinstance(n.val, bool):
            continue
        e = strip(n.ast, casts=True)
        neg = False
        while e.get("kind") == "UnaryOperator" and e.get("opcode") == "!":
            e, neg = strip(children(e)[0], casts=True), not neg
        if e.get("kind") == "DeclRefExpr":
            d = ref_decl(e) or {}
            init = children(d) if d.get("kind") == "VarDecl" and "inner" in d else []
            e = strip(init[-1], casts=True) if init else e
            while e.get("kind") in ("ExprWithCleanups", "MaterializeTemporaryExpr") and children(e):
                e = strip(children(e)[0], casts=True)
        if e.get("kind") != "CallExpr":
            continue
        ci = callee_info(e)
        if not ci or ci["name"] not in ("any_of", "none_of", "all_of") or len(ci["args"]) != 3:
            continue
        if canon(ci["args"][0]) != ("call", "begin", vc) or canon(ci["args"][1]) != ("call", "end", vc):
            continue
        lam = strip(ci["args"][2], casts=True)
        while lam.get("kind") in ("CXXConstructExpr", "MaterializeTemporaryExpr", "CXXBindTemporaryExpr") and children(lam):
            lam = strip(children(lam)[0], casts=True)
        lf = lam.get("_lam") if lam.get("kind") == "LambdaExpr" else None
        rets = [r for r in walk(lf.body) if r.get("kind") == "ReturnStmt" and children(r)] if lf is not None and lf.body is not None else []
        if lf is None or len(lf.params) != 1 or len(rets) != 1:
            continue
        ev = ("var", lf.params[0].get("id"), lf.params[0].get("name"))
        pc = canon(children(rets[0])[0])
        atoms = []

        def flat(t, op):
            if t[0] == "bin" and t[1] == op:
                flat(t[2], op); flat(t[3], op)
            else:
                atoms.append(t)
        # "bad" predicate: c < 0 || c >= N ; "good" predicate: c >= 0 && c < N
        value_when_all_valid = None
        flat(pc, "||")
        bad = any(t in (("bin", "<", ev, ("lit", "0")), ("bin", ">", ("lit", "0"), ev)) for t in atoms) and \
            any(t in (("bin", ">=", ev, nb), ("bin", "<=", nb, ev)) for t in atoms)
        atoms2 = atoms[:]
        del atoms[:]
        flat(pc, "&&")
        good = any(t in (("bin", ">=", ev, ("lit", "0")), ("bin", "<=", ("lit", "0"), ev)) for t in atoms) and \
            any(t in (("bin", "<", ev, nb), ("bin", ">", nb, ev)) for t in atoms)
        if bad and len(atoms2) == 2:
            value_when_all_valid = {"any_of": False, "none_of": True}.get(ci["name"])
        elif good and len(atoms) == 2:
            value_when_all_valid = {"all_of": True}.get(ci["name"])
        if value_when_all_valid is None:
            continue
        if neg:
            value_when_all_valid = not value_when_all_valid
        if n.val is value_when_all_valid:
            out.append(n)
    return out


def _bounded_fallthrough(ctx, f, g, incn, elems):
    """The loop increment is reached only when elem >= 0 and elem < nbCells() (edges from throwing guards)."""
    lo_ok = hi_ok = False
    for ast, val, en in g.dom_edges(incn):
        c = canon(ast)
        if c[0] != "bin":
            continue
        for e in elems:
            # lower bound
            if (c[1] == "<" and c[2] == e and c[3] == ("lit", "0") and val is False) or \
               (c[1] == ">=" and c[2] == e and c[3] == ("lit", "0") and val is True) or \
               (c[1] == ">" and c[3] == e and c[2] == ("lit", "0") and val is False) or \
               (c[1] == "<=" and c[3] == e and c[2] == ("lit", "0") and val is True):
                lo_ok = True
            nb = ("call", CQ + "Circuit::nbCells", ("this",))
            if (c[1] == ">=" and c[2] == e and c[3] == nb and val is False) or \
               (c[1] == "<" and c[2] == e and c[3] == nb and val is True) or \
               (c[1] == "<=" and c[2] == nb and c[3] == e and val is False) or \
               (c[1] == ">" and c[2] == nb and c[3] == e and val is True):
                hi_ok = True
    return lo_ok and hi_ok



