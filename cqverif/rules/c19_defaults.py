"""T4 placeholder: filled in later (defaults pass the check for efforts 1..9)."""


def run(ctx, rep):
    rep.note("T4 not implemented yet")
