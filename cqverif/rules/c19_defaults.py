"""T4 - every effort from 1 to 9 yields parameters that pass their own check.

Finite-domain constant folding (cqverif/consteval.py) of ColoquinteParameters(effort) and its nested parameter constructors for
each of the nine efforts, followed by ColoquinteParameters::check(): a reachable throw (or failing assert) for some effort is
the violation, with the effort, the message and the throwing line.  binary32 / binary64 are kept apart, so a bound written as a
float literal (0.9f) against a double member is compared the way the compiler compares it."""
from ..consteval import ConstEval, Thrown, AssertFailed, Unsupported, Obj
from ..model import loc_str
from .common import CQ

ROOT = CQ + "ColoquinteParameters"


def _summary(o, prefix="", out=None):
    out = {} if out is None else out
    for k, v in o.fields.items():
        if isinstance(v, Obj):
            _summary(v, prefix + k + ".", out)
        else:
            out[prefix + k] = v
    return out


def run(ctx, rep):
    prog = ctx.prog
    if not prog.funcs_by_q.get(ROOT + "::ColoquinteParameters"):
        rep.unknown("T4", None, None, "ColoquinteParameters", "constructor not found (shape changed)")
        return
    for effort in range(1, 10):
        ev = ConstEval(prog)
        what = "ColoquinteParameters(%d) and its check()" % effort
        try:
            obj = ev.construct(ROOT, [effort])
            ev.call_method(obj, "check")
        except Thrown as t:
            f = ctx.func_containing(t.node)
            rep.violation("T4", t.node, f, what, "effort %d is refused: throws \"%s\"" % (effort, t.msg[:90]),
                          key="effort %d|default parameters rejected in %s" % (effort, f.short if f else "?"))
            continue
        except AssertFailed as a:
            f = ctx.func_containing(a.node)
            rep.violation("T4", a.node, f, what, "an assert on the construction path fails for effort %d" % effort,
                          key="effort %d|assert fails in %s" % (effort, f.short if f else "?"))
            continue
        except Unsupported as u:
            rep.unknown("T4", None, None, what, "outside the constant-folding fragment: %s" % u)
            continue
        vals = _summary(obj)
        rep.holds("T4", "-", None, what, "%d members folded, no throw reachable (e.g. %s)" % (
            len(vals), ", ".join("%s=%s" % (k, ("%.6g" % v) if isinstance(v, float) else (v[2] if isinstance(v, tuple) else v))
                                 for k, v in sorted(vals.items())[:4])))
