"""C20 — file export and Python layer are faithful to the circuit.

N1   every py::enum_ value is bound to the enumerator of the same name, of the enum being bound
N2   every def_readwrite / def_property / def_property_readonly / def names the C++ member whose name is
     the camelCase form of the Python name, of the class being bound
N3   every name coloquinte.py imports from coloquinte_pybind and every attribute it uses on a bound
     object exists in the binding table
N4   toString(CellOrientation) maps each real orientation to its own enumerator name (what the .pl writer
     emits is what the reader looks up in CellOrientation.__members__)
N5   keys the Python reader requires / interprets in .scl rows are emitted by the writer, and the key read as an
     orientation name is written from toString(row.orientation)
XF   the .nets writer emits raw (unrotated) pin offsets relative to the raw cell centre, the inverse of what the
     reader computes; .nodes writes raw sizes; one record per cell / pin (full-range loops)
"""
import ast as pyast
import os
import re

from .. import frontend
from ..frontend import VERIF, AnalysisBroken
from ..model import Program, qt, loc_str, walk, inner, desugared
from ..expr import canon, pretty, children, strip, callee_info, ref_decl, subterms
from ..cfg import cfg_of
from ..tables import Evaluator, OutsideFragment, Abort
from .common import CQ, short, for_loop_info, loop_has_early_exit, expand_locals

EXPLANATION = (
    "Static check. module.cpp is parsed by clang against a stub of pybind11 (stubs/pybind11) and the real coloquinte.hpp, so every "
    "C++ entity named in a binding is resolved by the compiler; the binding table is extracted from the AST of the module init "
    "function. N1/N2: name correspondence between each Python-visible name and the resolved enumerator / data member / method "
    "(snake_case <-> camelCase, documented exceptions listed), and the entity's class is the class being bound or a base. N3: "
    "coloquinte.py is parsed with Python's ast module; names imported from coloquinte_pybind, enum members and attributes used on "
    "receivers known to be bound objects must exist in the table. N4: toString(CellOrientation) is evaluated for the 8 orientations. "
    "N5/XF: the ISPD writer in export.cpp is compared with the reader in coloquinte.py: required keys, orientation written from "
    "toString(row.orientation), pin offsets written as raw offset - 0.5 * raw size (floating point, no integer halving), loops over "
    "all cells / nets / pins / rows without skipping.")

DECLINED = ["numeric exactness of stream formatting beyond the structural inverse (values above 1e5 are outside the property's domain)",
            "behaviour of the real pybind11 templates (only the names and entities passed to them are checked)"]

SPECIAL_DEF = {"__str__": "toString", "__repr__": "toString"}
GETTER_PREFIXES = ["", "compute"]


def camel(snake):
    parts = snake.split("_")
    return parts[0] + "".join(p[:1].upper() + p[1:] for p in parts[1:])


def run(ctx, rep, tier):
    rep.rule("N1", "enum values bound to the enumerator of the same name", 27)
    rep.rule("N2", "attributes / properties / methods bound to the C++ member of the same (camelCase) name, of the bound class", 100)
    rep.rule("N3", "names coloquinte.py uses on the compiled module exist in the binding table", 20)
    rep.rule("N4", "toString(CellOrientation) yields the enumerator name for the 8 orientations", 8)
    rep.rule("N5", "writer emits the keys the reader needs; row orientation written by name", 6)
    rep.rule("XE", "every file of the benchmark is written on every path of exportIspd", 4)
    rep.rule("XA", "the .aux file names the other files relative to itself (the reader resolves them against its directory)", 4)
    rep.rule("XF", "writer emits raw geometry that the reader inverts exactly; full-range loops", 6)
    table = extract_bindings(ctx, rep)
    check_python(ctx, rep, table)
    check_tostring(ctx, rep, table)
    check_export(ctx, rep)


# ---- binding table --------------------------------------------------------------------

def entity_of(arg):
    """Resolved C++ entity of a binding argument: ('member', class qname, name, kind) / ('enum', type, name) / ('lambda', node) / None."""
    x = strip(arg, casts=True)
    k = x.get("kind")
    if k == "UnaryOperator" and x.get("opcode") == "&":
        y = strip(children(x)[0])
        if y.get("kind") == "DeclRefExpr":
            d = ref_decl(y) or {}
            cls = d.get("_ctx")
            if cls is None:
                t = qt(x)
                m = re.search(r"\(?([\w:]+)::\*", t)
                cls = m.group(1) if m else "?"
            return ("member", cls, d.get("name"), d.get("kind"))
    if k == "DeclRefExpr":
        d = ref_decl(x) or {}
        if d.get("kind") == "EnumConstantDecl":
            return ("enum", qt(x), d.get("name"))
    if k == "LambdaExpr":
        return ("lambda", x)
    return None


def literal(arg):
    x = strip(arg, casts=True)
    if x.get("kind") == "StringLiteral":
        return x.get("value", "").strip('"')
    return None


def bound_type(objtype):
    """'pybind11::class_<coloquinte::Row, coloquinte::Rectangle>' -> ('class_', ['coloquinte::Row', 'coloquinte::Rectangle'])"""
    m = re.match(r"(?:const )?pybind11::(enum_|class_)<(.*)>\s*$", objtype.strip())
    if not m:
        return None
    return m.group(1), [a.strip() for a in m.group(2).split(",")]


def extract_bindings(ctx, rep):
    path = frontend.repo_path("pycoloquinte/module.cpp")
    if not os.path.exists(path):
        raise AnalysisBroken("pycoloquinte/module.cpp not found")
    try:
        mp = Program.from_files([path], extra_flags=["-I" + os.path.join(VERIF, "stubs")])
    except AnalysisBroken as e:
        rep.violation("N2", "pycoloquinte/module.cpp", None, "module.cpp does not type-check against coloquinte.hpp",
                      "a binding names a C++ entity that does not exist (or the stub no longer covers the pybind11 API used): %s" % str(e)[-600:],
                      key="module.cpp|does not compile")
        return {"classes": {}, "enums": {}, "pynames": {}}
    inits = [f for f in mp.funcs.values() if "pybind11_init" in f.qname]
    if len(inits) != 1:
        raise AnalysisBroken("module init function not found in module.cpp")
    f = inits[0]
    table = {"classes": {}, "enums": {}, "pynames": {}, "prog": mp}
    # python-visible names of the bound types
    for x in walk(f.body):
        if x.get("kind") in ("CXXTemporaryObjectExpr", "CXXConstructExpr"):
            bt = bound_type(desugared(x)) or bound_type(qt(x))
            if bt:
                args = children(x)
                nm = literal(args[1]) if len(args) > 1 else None
                if nm:
                    table["pynames"][nm] = bt
                    (table["enums"] if bt[0] == "enum_" else table["classes"]).setdefault(bt[1][0], {"py": nm, "bases": bt[1][1:], "members": {}})
    bases_of = {c: v["bases"] for c, v in table["classes"].items()}
    for c, r in mp.records.items():
        bases_of.setdefault(c, [])
        bases_of[c] = list(set(bases_of[c]) | {b for b in r.get("bases", [])})
    for x in walk(f.body):
        if x.get("kind") != "CXXMemberCallExpr":
            continue
        ci = callee_info(x)
        nm = ci["name"]
        if nm not in ("value", "def_readwrite", "def_readonly", "def_property", "def_property_readonly", "def", "def_static"):
            continue
        bt = (bound_type(desugared(ci["obj"])) or bound_type(qt(ci["obj"]))) if ci["obj"] is not None else None
        if not bt:
            rep.unknown("N2", x, None, "binding call %s" % nm, "receiver type %s not recognised" % qt(ci["obj"]))
            continue
        kind_, targs = bt
        cls = targs[0]
        args = ci["args"]
        pyname = literal(args[0]) if args else None
        if pyname is None:
            if nm == "def":
                continue   # def(py::init<...>())
            rep.unknown("N2", x, None, "binding call %s" % nm, "first argument is not a string literal")
            continue
        ents = [entity_of(a) for a in args[1:]]
        ents = [e for e in ents if e]
        if kind_ == "enum_":
            table["enums"].setdefault(cls, {"py": "?", "bases": [], "members": {}})
            table["enums"][cls]["members"][pyname] = ents[0] if ents else None
            e = ents[0] if ents else None
            what = '%s.value("%s", %s)' % (short(cls), pyname, "%s::%s" % (short(e[1]), e[2]) if e else "?")
            if not e or e[0] != "enum":
                rep.unknown("N1", x, None, what, "bound value is not an enumerator")
            elif e[1] != cls:
                rep.violation("N1", x, None, what, "enumerator of %s bound in the table of %s" % (e[1], cls), key="module.cpp|%s.%s wrong enum" % (short(cls), pyname))
            elif e[2] != pyname:
                rep.violation("N1", x, None, what, "Python name %s is bound to enumerator %s" % (pyname, e[2]), key="module.cpp|%s.%s bound to %s" % (short(cls), pyname, e[2]))
            else:
                rep.holds("N1", x, None, what)
            continue
        table["classes"].setdefault(cls, {"py": "?", "bases": targs[1:], "members": {}})["members"][pyname] = (nm, ents)
        check_member_binding(rep, x, cls, targs, bases_of, nm, pyname, ents)
    return table


def class_ok(ecls, cls, bases_of):
    if ecls == cls:
        return True
    seen, stack = set(), [cls]
    while stack:
        c = stack.pop()
        for b in bases_of.get(c, []):
            b = b if b.startswith(CQ) else CQ + b.replace("coloquinte::", "")
            if b == ecls:
                return True
            if b not in seen:
                seen.add(b)
                stack.append(b)
    return False


def check_member_binding(rep, x, cls, targs, bases_of, nm, pyname, ents):
    scls = short(cls)
    what = '%s.%s("%s", %s)' % (scls, nm, pyname, ", ".join("&%s::%s" % (short(e[1]), e[2]) if e[0] == "member" else e[0] for e in ents))
    key = "module.cpp|%s.%s" % (scls, pyname)
    members = [e for e in ents if e[0] == "member"]
    lambdas = [e for e in ents if e[0] == "lambda"]
    for e in members:
        if not class_ok(e[1], cls, bases_of):
            rep.violation("N2", x, None, what, "member of %s bound in the table of %s" % (short(e[1]), scls), key=key + " wrong class")
            return
    if nm in ("def_readwrite", "def_readonly"):
        if len(members) != 1:
            rep.unknown("N2", x, None, what, "no member pointer found")
        elif members[0][2] == camel(pyname):
            rep.holds("N2", x, None, what)
        else:
            rep.violation("N2", x, None, what, "attribute %s must be bound to %s::%s" % (pyname, scls, camel(pyname)), key=key + " bound to " + str(members[0][2]))
        return
    if nm == "def_property_readonly":
        ok = members and members[0][2] in (camel(pyname), "compute" + camel(pyname)[:1].upper() + camel(pyname)[1:])
        if ok:
            rep.holds("N2", x, None, what)
        elif members:
            rep.violation("N2", x, None, what, "property %s must be bound to %s::%s" % (pyname, scls, camel(pyname)), key=key + " bound to " + str(members[0][2]))
        else:
            rep.unknown("N2", x, None, what, "getter not recognised")
        return
    if nm == "def_property":
        want_g = camel(pyname)
        want_s = "set" + want_g[:1].upper() + want_g[1:]
        if len(members) >= 2 and members[0][2] == want_g and members[1][2] == want_s:
            rep.holds("N2", x, None, what)
        elif len(members) >= 2:
            rep.violation("N2", x, None, what, "property %s must use getter %s and setter %s" % (pyname, want_g, want_s), key=key + " wrong accessor pair")
        else:
            rep.unknown("N2", x, None, what, "getter/setter not recognised")
        return
    if nm in ("def", "def_static"):
        want = SPECIAL_DEF.get(pyname, camel(pyname))
        if members:
            if members[0][2] == want:
                rep.holds("N2", x, None, what)
            else:
                rep.violation("N2", x, None, what, "method %s must be bound to %s::%s" % (pyname, scls, want), key=key + " bound to " + str(members[0][2]))
        elif lambdas:
            lam = lambdas[0][1]
            calls = [callee_info(y)["qname"] for y in walk(lam) if y.get("kind") == "CXXMemberCallExpr"]
            if cls + "::" + want in calls:
                rep.holds("N2", x, None, what, "lambda calls %s::%s" % (scls, want))
            else:
                rep.violation("N2", x, None, what, "lambda bound as %s does not call %s::%s (calls: %s)" % (pyname, scls, want, [short(c) for c in calls]),
                              key=key + " lambda calls other method")
        else:
            rep.unknown("N2", x, None, what, "bound callable not recognised")


# ---- python layer ---------------------------------------------------------------------

def check_python(ctx, rep, table):
    path = frontend.repo_path("pycoloquinte/coloquinte.py")
    if not os.path.exists(path):
        raise AnalysisBroken("pycoloquinte/coloquinte.py not found")
    tree = pyast.parse(open(path).read())
    pynames = table["pynames"]
    if not pynames:
        return
    imported = {}
    for n in pyast.walk(tree):
        if isinstance(n, pyast.ImportFrom) and n.module == "coloquinte_pybind":
            for a in n.names:
                imported[a.asname or a.name] = a.name
                if a.name in pynames:
                    rep.holds("N3", "pycoloquinte/coloquinte.py:%d" % n.lineno, None, "import %s" % a.name)
                else:
                    rep.violation("N3", "pycoloquinte/coloquinte.py:%d" % n.lineno, None, "import %s" % a.name,
                                  "coloquinte_pybind does not bind a type named %s" % a.name, key="coloquinte.py|imports unbound %s" % a.name)
    enums = {v["py"]: v for v in table["enums"].values()}
    classes = {v["py"]: (c, v) for c, v in table["classes"].items()}

    def class_members(pyclass):
        out = set()
        c, v = classes[pyclass]
        stack = [c]
        seen = set()
        while stack:
            cc = stack.pop()
            if cc in seen:
                continue
            seen.add(cc)
            if cc in table["classes"]:
                out |= set(table["classes"][cc]["members"])
                stack.extend(b if b.startswith(CQ) else CQ + b for b in table["classes"][cc]["bases"])
        return out

    # enum member accesses: Name.attr where Name is an imported enum
    for n in pyast.walk(tree):
        if isinstance(n, pyast.Attribute) and isinstance(n.value, pyast.Name) and imported.get(n.value.id) in enums:
            e = enums[imported[n.value.id]]
            if n.attr.startswith("__"):
                continue
            site = "pycoloquinte/coloquinte.py:%d" % n.lineno
            if n.attr in e["members"]:
                rep.holds("N3", site, None, "%s.%s" % (n.value.id, n.attr))
            else:
                rep.violation("N3", site, None, "%s.%s" % (n.value.id, n.attr), "no such value in the binding table of %s" % e["py"],
                              key="coloquinte.py|%s.%s unbound" % (n.value.id, n.attr))
    # attribute uses on self / super() inside subclasses of bound classes, and on variables built from bound constructors
    for cl in [n for n in pyast.walk(tree) if isinstance(n, pyast.ClassDef)]:
        base = None
        for b in cl.bases:
            if isinstance(b, pyast.Attribute) and isinstance(b.value, pyast.Name) and b.value.id == "coloquinte_pybind" and b.attr in classes:
                base = b.attr
            if isinstance(b, pyast.Name) and imported.get(b.id) in classes:
                base = imported[b.id]
        if base is None:
            continue
        bound = class_members(base)
        own = {m.name for m in cl.body if isinstance(m, pyast.FunctionDef)}
        own_attrs = set()
        for n in pyast.walk(cl):
            if isinstance(n, pyast.Attribute) and isinstance(n.ctx, pyast.Store) and isinstance(n.value, pyast.Name) and n.attr.startswith("_"):
                own_attrs.add(n.attr)
        for fn in [m for m in cl.body if isinstance(m, pyast.FunctionDef)]:
            receivers = set()
            if fn.args.args and not any(isinstance(d, pyast.Name) and d.id == "staticmethod" for d in fn.decorator_list):
                receivers.add(fn.args.args[0].arg)
            for n in pyast.walk(fn):
                if isinstance(n, pyast.Assign) and isinstance(n.value, pyast.Call) and isinstance(n.value.func, pyast.Name) and n.value.func.id == cl.name:
                    for t in n.targets:
                        if isinstance(t, pyast.Name):
                            receivers.add(t.id)
            for n in pyast.walk(fn):
                if not isinstance(n, pyast.Attribute):
                    continue
                recv = None
                if isinstance(n.value, pyast.Name) and n.value.id in receivers:
                    recv = n.value.id
                elif isinstance(n.value, pyast.Call) and isinstance(n.value.func, pyast.Name) and n.value.func.id == "super":
                    recv = "super()"
                if recv is None:
                    continue
                a = n.attr
                if a.startswith("__") or a in own or a in own_attrs:
                    continue
                site = "pycoloquinte/coloquinte.py:%d" % n.lineno
                if a in bound:
                    rep.holds("N3", site, None, "%s.%s" % (recv, a))
                else:
                    rep.violation("N3", site, None, "%s.%s" % (recv, a), "class %s has no bound member of that name" % base,
                                  key="coloquinte.py|%s.%s unbound" % (base, a))


# ---- toString ----------------------------------------------------------------------------

def check_tostring(ctx, rep, table):
    prog = ctx.prog
    f = prog.func1(CQ + "toString", ptype="CellOrientation")
    ev = Evaluator(prog)
    CO = CQ + "CellOrientation"
    bound = (table["enums"].get(CO) or {}).get("members", {})
    for n, v in ev.enumerators(CO):
        if n in ("INVALID", "UNKNOWN"):
            continue
        try:
            got = ev.call(f, [v])
        except (OutsideFragment, Abort) as e:
            # not an enum-dispatch function (e.g. a lookup table indexed by the enumerator's value): fold it concretely
            try:
                from ..consteval import ConstEval, Unsupported, Thrown, AssertFailed
                ce = ConstEval(prog)
                got = ce._call(f, [("enum", CO, n, v.value if hasattr(v, "value") else None)], None)
            except (Unsupported, Thrown, AssertFailed) as e2:
                rep.unknown("N4", f.decl, f, "toString(%s)" % n, "not evaluable: %s / %s" % (e, e2))
                continue
        ok = got == ("str", n)
        inpy = (n in bound) if bound else True
        if ok and inpy:
            rep.holds("N4", f.decl, f, 'toString(%s) = "%s"' % (n, n))
        elif not ok:
            rep.violation("N4", f.decl, f, "toString(%s) = %s" % (n, got), "the .pl/.scl reader looks the text up in CellOrientation.__members__: must be \"%s\"" % n,
                          key="toString(CellOrientation)|%s" % n)
        else:
            rep.violation("N4", f.decl, f, "orientation %s is written to files but not bound in Python" % n, "", key="module.cpp|orientation %s unbound" % n)


# ---- export.cpp vs the reader -----------------------------------------------------------

def stream_items(func):
    """All operands streamed with operator<< in func, in source order: list of (canon, operand node, call node)."""
    out = []

    def is_shift(x):
        return x.get("kind") == "CXXOperatorCallExpr" and callee_info(x)["name"] == "operator<<"

    def flatten(x):
        ci = callee_info(x)
        obj = strip(ci["obj"]) if ci["obj"] is not None else None
        if obj is not None and is_shift(obj):
            flatten(obj)
        if ci["args"]:
            out.append((canon(ci["args"][0]), ci["args"][0], x))

    for x in walk(func.body):
        if is_shift(x):
            p = x.get("_p")
            while p is not None and p.get("kind") in ("ImplicitCastExpr", "ExprWithCleanups", "MaterializeTemporaryExpr", "ParenExpr"):
                p = p.get("_p")
            if p is not None and is_shift(p) and strip(callee_info(p)["obj"]) is x:
                continue
            flatten(x)
    return out


def _is_loop_cond(ast):
    p = ast.get("_p")
    child = ast
    while p is not None and p.get("kind") in ("ImplicitCastExpr", "ParenExpr", "ExprWithCleanups"):
        child, p = p, p.get("_p")
    if p is None or p.get("kind") not in ("ForStmt", "WhileStmt", "DoStmt"):
        return False
    ch = [c for c in inner(p) if isinstance(c, dict)]
    return (p.get("kind") == "ForStmt" and len(ch) >= 3 and ch[2] is child) or (p.get("kind") == "WhileStmt" and ch[-2] is child) or \
        (p.get("kind") == "DoStmt" and ch[1] is child)


def _reader_default(fn, src, key):
    """Name of the CellOrientation member the reader uses when `key` is absent: the constant assigned to the variable that the
    key's branch assigns, outside that branch. Returns the member name, or a description when it is not a single constant."""
    var = None
    branch = None
    for n in pyast.walk(fn):
        if isinstance(n, pyast.If) and isinstance(n.test, pyast.Compare) and isinstance(n.test.comparators[0], pyast.Constant) \
                and n.test.comparators[0].value == key:
            for m in pyast.walk(n):
                if isinstance(m, pyast.Assign) and "CellOrientation.__members__" in (pyast.get_source_segment(src, m) or ""):
                    if isinstance(m.targets[0], pyast.Name):
                        var = m.targets[0].id
                        branch = n
    if var is None:
        return "<no variable receives the key>"
    inside = {id(m) for m in pyast.walk(branch)}
    vals = set()
    for m in pyast.walk(fn):
        if isinstance(m, pyast.Assign) and id(m) not in inside and any(isinstance(t, pyast.Name) and t.id == var for t in m.targets):
            v = m.value
            if isinstance(v, pyast.Attribute) and isinstance(v.value, pyast.Name) and v.value.id == "CellOrientation":
                vals.add(v.attr)
            else:
                vals.add("<%s>" % (pyast.get_source_segment(src, v) or "expression")[:60])
    if len(vals) == 1:
        return vals.pop()
    return "<%s>" % ", ".join(sorted(vals)) if vals else "<none>"


def check_export_complete(ctx, rep):
    """XE. Circuit::exportIspd writes the five files of the benchmark on every path: each writer (the functions of export.cpp that
    receive the file name) is called on every path from entry to a normal return, under no condition - an export that skips the
    netlist "because it has not changed" leaves stale files behind."""
    prog = ctx.prog
    f = prog.func1(CQ + "Circuit::exportIspd")
    g = cfg_of(f)
    calls = []
    names = {}
    for x in walk(f.body):
        if x.get("kind") in ("CallExpr", "CXXMemberCallExpr"):
            ci, fs = ctx.eff.resolve_callee(x)
            if not (ci and fs) or fs[0].body is None or not fs[0].unit.name.endswith("export.cpp"):
                continue
            sp = [k for k, p_ in enumerate(fs[0].params) if "basic_string" in qt(p_) or "std::string" in qt(p_) or "string_view" in qt(p_)]
            if len(sp) == 1 and sp[0] < len(ci["args"]):
                calls.append((x, fs[0]))
                names.setdefault(canon(ci["args"][sp[0]]), []).append((x, fs[0]))
    if len(names) > 1:
        # the five files of one benchmark go by one name: the .aux file lists <name>.nodes, <name>.nets, ... and the reader opens those
        major = max(names.values(), key=len)
        for c_, lst in names.items():
            if lst is major:
                continue
            for x, h in lst:
                rep.violation("XE", x, f, "%s is given the name %s" % (short(h.qname), pretty(c_)[:30]),
                              "the other writers are given %s: the .aux file names a file that this export did not write" % pretty([k for k, v_ in names.items() if v_ is major][0])[:30],
                              key="Circuit::exportIspd|writers given different names")
    writers = {}
    for x, h in calls:
        writers.setdefault(h.key, (h, []))[1].append(x)
    if len(writers) < 2:
        rep.unknown("XE", f.decl, f, "file writers", "fewer than two writer calls receiving the file name were found (shape changed)")
        return
    for h, xs in writers.values():
        ns = [g.node_for(x) for x in xs]
        ns = [n_ for n_ in ns if n_ is not None]
        what = "%s is called on every path of exportIspd" % short(h.qname)
        if g.exit.idx in g.reachable_from([g.entry], avoid=ns):
            rep.violation("XE", xs[0], f, what, "a path returns without calling it: that file keeps the content of an earlier export "
                          "(or is missing) while the others are rewritten", key="Circuit::exportIspd|%s skipped on a path" % short(h.qname))
        else:
            rep.holds("XE", xs[0], f, what)


def check_export_raw_rows(ctx, rep):
    """XF (rows). The .scl file describes the rows the user declared: the writer reads Circuit::rows() / rows_. Circuit::computeRows()
    is a *derived* quantity (the rows minus the fixed obstructions, cut into pieces): written out, a circuit with a macro over its rows
    reads back with other rows than it had."""
    prog = ctx.prog
    n = 0
    for f in prog.all_funcs(with_lambdas=False):
        if f.body is None or not f.unit.name.endswith("export.cpp"):
            continue
        for x in walk(f.body):
            if x.get("kind") == "CXXMemberCallExpr":
                ci = callee_info(x)
                if ci and ci["qname"] in (CQ + "Circuit::rows", CQ + "Circuit::nbRows"):
                    n += 1
                elif ci and ci["qname"] in (CQ + "Circuit::computeRows", CQ + "Circuit::computeRowPlacementArea", CQ + "Circuit::computePlacementArea"):
                    rep.violation("XF", x, f, "%s writes %s()" % (f.short, ci["name"]), "a derived quantity (rows with the fixed obstructions removed) is "
                                  "exported in place of the declared rows: the reader rebuilds a circuit with different rows",
                                  key="%s|derived rows exported" % f.short)
    if n:
        rep.holds("XF", "src/export.cpp", None, "the row writer reads the declared rows (%d accesses to rows() / nbRows())" % n)


def _strips_directory(node):
    """The expression removes the directory part of a path: substr(find_last_of / rfind ...), path::filename() / stem(), a *basename* helper."""
    for y in walk(node):
        if y.get("kind") in ("CXXMemberCallExpr", "CallExpr"):
            ci = callee_info(y)
            if not ci:
                continue
            nm = ci["name"] or ""
            if nm == "substr" and any(callee_info(z) and callee_info(z)["name"] in ("find_last_of", "rfind") for a_ in ci["args"] for z in walk(a_)
                                      if z.get("kind") in ("CXXMemberCallExpr", "CallExpr")):
                return True
            if nm in ("filename", "stem") or "basename" in nm.lower():
                return True
    return False


def check_aux_names(ctx, rep):
    """XA. The reader (coloquinte.py, _read_aux) looks for the files listed in the .aux file in the directory of the .aux file:
    os.path.join(os.path.dirname(aux), name). The writer must therefore list them without the directory the export was directed to:
    with the path given to exportIspd written as it is, `export_ispd("out/design")` writes out/design.aux naming out/design.nodes, which the
    reader looks for as out/out/design.nodes."""
    prog = ctx.prog
    path = frontend.repo_path("pycoloquinte/coloquinte.py")
    src = open(path).read()
    tree = pyast.parse(src)
    fn = next((n for n in pyast.walk(tree) if isinstance(n, pyast.FunctionDef) and n.name == "_read_aux"), None)
    joined = False
    if fn is not None:
        dirs = set()
        for n in pyast.walk(fn):
            if isinstance(n, pyast.Assign) and isinstance(n.value, pyast.Call) and isinstance(n.value.func, pyast.Attribute) and n.value.func.attr == "dirname":
                dirs |= {t.id for t in n.targets if isinstance(t, pyast.Name)}
        for n in pyast.walk(fn):
            if isinstance(n, pyast.Return) and n.value is not None:
                js = [c for c in pyast.walk(n.value) if isinstance(c, pyast.Call) and isinstance(c.func, pyast.Attribute) and c.func.attr == "join"
                      and c.args and isinstance(c.args[0], pyast.Name) and c.args[0].id in dirs]
                if len(js) >= 4:
                    joined = True
    if not joined:
        rep.unknown("XA", "pycoloquinte/coloquinte.py", None, "_read_aux", "the reader no longer joins the listed names with the directory of the .aux file: "
                    "what the writer has to list is not known")
        return
    ws = []
    for f in prog.all_funcs(with_lambdas=False):
        if f.body is None or not f.unit.name.endswith("export.cpp"):
            continue
        lits = [canon(y) for y in walk(f.body) if y.get("kind") in ("StringLiteral", "DeclRefExpr")]
        if any(c_[0] == "lit" and ".aux" in str(c_[1]) for c_ in lits) and f.params and \
                any(y.get("kind") == "VarDecl" and "ofstream" in qt(y) for y in walk(f.body)):
            ws.append(f)
    if len(ws) != 1:
        rep.unknown("XA", "src/export.cpp", None, "writer of the .aux file", "%d candidates (shape changed)" % len(ws))
        return
    f = ws[0]
    pids = {p_.get("id") for p_ in f.params}
    items = stream_items(f)
    n = 0
    for k, (c, node, call) in enumerate(items):
        nxt = items[k + 1][0] if k + 1 < len(items) else None
        if not (nxt is not None and nxt[0] == "lit" and any(e in str(nxt[1]) for e in (".nodes", ".nets", ".pl", ".scl"))):
            continue
        n += 1
        what = "%s: name written before %s" % (f.short, str(nxt[1]).strip()[:10])
        vs = [t for t in subterms(c) if isinstance(t, tuple) and t and t[0] == "var"]
        if _strips_directory(node):
            rep.holds("XA", node, f, what, "directory part removed in the streamed expression")
        elif any(v[1] in pids for v in vs):
            rep.violation("XA", node, f, what, "is the path given to exportIspd, directory included: the reader joins it with the directory of the .aux "
                          "file again and looks for the files one directory too deep", key="%s|path written with its directory" % f.short)
        else:
            ok = None
            for v in vs:
                d = f.unit.by_id.get(v[1])
                init = children(d)[-1] if d is not None and d.get("kind") == "VarDecl" and children(d) else None
                if init is None:
                    continue
                if _strips_directory(init):
                    ok = True
                elif any(isinstance(t, tuple) and t and t[0] == "var" and t[1] in pids for t in subterms(canon(init))) and ok is None:
                    ok = False
            if ok is True:
                rep.holds("XA", node, f, what, "a local from which the directory part has been removed")
            elif ok is False:
                rep.violation("XA", node, f, what, "is a copy of the path given to exportIspd, directory included: the reader joins it with the directory of the "
                              ".aux file again", key="%s|path written with its directory" % f.short)
            else:
                rep.unknown("XA", node, f, what, "where the written name comes from was not recognised")
    if n < 4:
        rep.unknown("XA", f.decl, f, "names listed in the .aux file", "%d of 4 found (shape changed)" % n)


def check_export(ctx, rep):
    prog = ctx.prog
    check_export_complete(ctx, rep)
    check_aux_names(ctx, rep)
    check_export_raw_rows(ctx, rep)
    # ---- rows (.scl): keys the reader interprets
    src = open(frontend.repo_path("pycoloquinte/coloquinte.py")).read()
    tree = pyast.parse(src)
    rr = [n for n in pyast.walk(tree) if isinstance(n, pyast.FunctionDef) and n.name == "_read_rows"]
    if not rr:
        raise AnalysisBroken("_read_rows not found in coloquinte.py")
    keys = []
    orient_keys = []
    for n in pyast.walk(rr[0]):
        if isinstance(n, pyast.If) and isinstance(n.test, pyast.Compare) and isinstance(n.test.comparators[0], pyast.Constant) \
                and isinstance(n.test.comparators[0].value, str):
            k = n.test.comparators[0].value
            keys.append(k)
            body_src = pyast.get_source_segment(src, n) or ""
            if "CellOrientation.__members__" in body_src:
                orient_keys.append(k)
    f = prog.func1(CQ + "exportIspdRows")
    items = stream_items(f)
    lits = [(c[1].strip('"'), i) for i, (c, _a, _x) in enumerate(items) if c[0] == "lit" and isinstance(c[1], str)]
    required = [k for k in keys if k not in ("sitewidth", "siteorient")]
    for k in keys:
        hit = [(s, i) for s, i in lits if k in s.lower().replace(" ", "")]
        if not hit:
            if k in required:
                rep.violation("N5", f.decl, f, "key '%s' is never written" % k, "the reader asserts it is present", key="exportIspdRows|key %s missing" % k)
            else:
                rep.violation("N5", f.decl, f, "key '%s' is never written" % k, "the reader would silently use its default", key="exportIspdRows|key %s missing" % k)
            continue
        s, i = hit[0]
        # conditional emission: the reader's default must be exactly the value under which the writer omits the key
        cg = [(gc, val) for gc, val, ast, _as in (ctx.guards(f, items[i][2]) or []) if isinstance(val, bool) and not _is_loop_cond(ast)]
        if cg:
            omitted = None
            if len(cg) == 1 and cg[0][0][0] == "bin" and cg[0][0][1] in ("!=", "=="):
                gc, val = cg[0]
                written_when_ne = (gc[1] == "!=") == val
                sides = [gc[2], gc[3]]
                en = [t for t in sides if t[0] == "enum"]
                fld = [t for t in sides if any(u[0] == "field" and u[1].endswith("Row::orientation") for u in subterms(t))]
                if written_when_ne and en and fld:
                    omitted = str(en[0][-1]).split("::")[-1]
            if k in required:
                rep.violation("N5", items[i][2], f, "key '%s' is written only under %s" % (k, " and ".join(pretty(g) for g, _v in cg)),
                              "the reader asserts it is present in every row", key="exportIspdRows|key %s conditional" % k)
                continue
            if k not in orient_keys or omitted is None:
                rep.unknown("N5", items[i][2], f, "key '%s' is written only under %s" % (k, " and ".join(pretty(g) for g, _v in cg)),
                            "conditional emission of a form this rule cannot pair with the reader's default")
                continue
            dflt = _reader_default(rr[0], src, k)
            if dflt == omitted:
                rep.holds("N5", items[i][2], f, "'%s' omitted exactly when the orientation is %s, the reader's constant default" % (k, omitted))
            else:
                rep.violation("N5", items[i][2], f, "'%s' is omitted when the row orientation is %s but the reader's default is %s" % (k, omitted, dflt),
                              "rows written without the key are read back with another orientation", key="exportIspdRows|%s default mismatch" % k)
                continue
        if k in orient_keys:
            # value written after the key must be toString(row orientation), unless the literal itself carries a constant
            tail = s.lower().split(k)[-1].replace(":", "").strip()
            nxt = expand_locals(ctx, f, items[i + 1][0]) if i + 1 < len(items) else ("none",)
            if tail:
                rep.violation("N5", items[i][2], f, "'%s' written with the constant '%s'" % (k, tail),
                              "the reader interprets this key as an orientation name: the row orientation is lost", key="exportIspdRows|%s constant" % k)
            elif nxt[0] == "call" and nxt[1] == CQ + "toString" and any(t[0] == "field" and t[1].endswith("Row::orientation") for t in subterms(nxt)):
                rep.holds("N5", items[i][2], f, "'%s' written from toString(row.orientation)" % k)
            else:
                rep.violation("N5", items[i][2], f, "'%s' followed by %s" % (k, pretty(nxt)), "expected toString(rows()[i].orientation)",
                              key="exportIspdRows|%s not the row orientation" % k)
        else:
            # the value written after a geometric key must be a quantity of the row being written (not a loop-invariant one)
            if k in ("coordinate", "height", "subroworigin", "numsites"):
                nxt = expand_locals(ctx, f, items[i + 1][0]) if i + 1 < len(items) else ("none",)
                loops_ = [for_loop_info(x_) for x_ in walk(f.body) if x_.get("kind") == "ForStmt"]
                lv = [l_["var"][:2] for l_ in loops_ if l_]
                per_row = any(t[0] == "var" and t[:2] in lv for t in subterms(nxt)) or any(
                    t[0] == "elem" for t in subterms(nxt))
                if nxt[0] != "lit" and not per_row:
                    rep.violation("N5", items[i][2], f, "'%s' is followed by %s, which does not depend on the row being written" % (k, pretty(nxt)[:60]),
                                  "every row is written with the same value: rows of different extent are not reproduced",
                                  key="exportIspdRows|%s not per row" % k)
                    continue
            rep.holds("N5", items[i][2], f, "key '%s' written" % k)
    # ---- nets: raw offsets relative to the raw centre; reader: int(round(0.5 * size + v))
    g = prog.func1(CQ + "exportIspdNets")
    loops = [for_loop_info(x) for x in walk(g.body) if x.get("kind") == "ForStmt"]
    loops = [l for l in loops if l]
    for l in loops:
        if l["hi"]:
            l["hi"] = expand_locals(ctx, g, l["hi"])
    netl = [l for l in loops if l["hi"] and l["hi"][0] == "call" and l["hi"][1] == CQ + "Circuit::nbNets"]
    pinl = [l for l in loops if l["hi"] and l["hi"][0] == "call" and l["hi"][1] == CQ + "Circuit::nbPinsNet"]
    global_pins = False
    if netl and not pinl:
        # the pins of net i addressed by their global index: for (pin = netLimits_[i]; pin < netLimits_[i] + nbPinsNet(i); ++pin)
        nv = netl[0]["var"]
        first = ("index", ("field", CQ + "Circuit::netLimits_", None), nv)
        for l in loops:
            lo = expand_locals(ctx, g, l["lo"]) if l["lo"] else None
            hi = l["hi"]
            if lo is None or hi is None or not (lo[0] == "index" and lo[1][0] == "field" and lo[1][1] == CQ + "Circuit::netLimits_" and lo[2] == nv):
                continue
            full = (hi[0] == "bin" and hi[1] == "+" and lo in hi[2:4] and any(t[0] == "call" and t[1] == CQ + "Circuit::nbPinsNet" and t[3] == nv for t in hi[2:4])) or \
                   (hi[0] == "index" and hi[1] == lo[1] and hi[2] == ("bin", "+", nv, ("lit", "1")))
            if full:
                l2 = dict(l)
                l2["lo"] = ("lit", "0")           # judged as a full range below
                pinl = [l2]
                global_pins = True
    if not netl or not pinl:
        rep.unknown("XF", g.decl, g, "net / pin loops", "not recognised")
    else:
        ok = all(l["lo"] == ("lit", "0") and l["step"] == 1 and loop_has_early_exit(l["body"]) is None and
                 not any(y.get("kind") == "ContinueStmt" for y in walk(l["body"])) for l in (netl[0], pinl[0]))
        if ok:
            rep.holds("XF", pinl[0]["stmt"], g, "every pin of every net is written (full-range loops, no skip)")
        else:
            rep.violation("XF", pinl[0]["stmt"], g, "a net or pin can be skipped by the writer", "", key="exportIspdNets|loop incomplete")
        net, pin = netl[0]["var"], pinl[0]["var"]
        cobj = None
        vals = {}
        # the two floating-point values streamed for each pin, in order: x offset then y offset (the reader's order)
        inside = {id(y) for y in walk(pinl[0]["body"])}
        streamed = [(a, c) for c, a, x_ in stream_items(g) if id(x_) in inside and c[0] != "lit" and
                    (desugared(a) or qt(a) or "").replace("const ", "").strip() in ("double", "float")]
        for axis, (a, c) in zip(("x", "y"), streamed[:2]):
            vals[axis] = (a, expand_locals(ctx, g, c))
        for axis, raw, size in (("x", "pinXOffsets_", "cellWidth_"), ("y", "pinYOffsets_", "cellHeight_")):
            if axis not in vals:
                rep.unknown("XF", g.decl, g, "pin %s offset" % axis, "no floating-point value streamed for it in the pin loop")
                continue
            node, v = vals[axis]
            what = "pin %s offset written as %s" % (axis, pretty(v)[:100])
            ok, why = raw_centre_offset(v, raw, size, net, pin, global_pins)
            if ok:
                rep.holds("XF", node, g, what, "raw offset - 0.5 * raw size (exact inverse of the reader)")
            else:
                rep.violation("XF", node, g, what, why, key="exportIspdNets|%s offset not raw-centre" % axis)
    # ---- nodes: raw sizes, one record per cell
    h = prog.func1(CQ + "exportIspdNodes")
    its = stream_items(h)
    wrote_w = any(c[0] == "index" and c[1][0] == "field" and c[1][1] == CQ + "Circuit::cellWidth_" for c, _a, _x in its)
    wrote_h = any(c[0] == "index" and c[1][0] == "field" and c[1][1] == CQ + "Circuit::cellHeight_" for c, _a, _x in its)
    placed = [c for c, _a, _x in its if c[0] == "call" and c[1] in (CQ + "Circuit::placedWidth", CQ + "Circuit::placedHeight")]
    cond_sizes = []
    for c, a, x in its:
        if c[0] == "index" and c[1][0] == "field" and c[1][1] in (CQ + "Circuit::cellWidth_", CQ + "Circuit::cellHeight_"):
            gs = [(gc, val) for gc, val, ast, _as in (ctx.guards(h, x) or []) if isinstance(val, bool) and not _is_loop_cond(ast)]
            if gs:
                cond_sizes.append((x, gs))
    if cond_sizes:
        x, gs = cond_sizes[0]
        rep.violation("XF", x, h, ".nodes writes a cell's size only under %s" % " and ".join(pretty(g_)[:50] for g_, _v in gs),
                      "a record without dimensions is read back as a 0 x 0 cell: cells for which the condition fails lose their size "
                      "(and their pins move, since offsets are stored relative to the centre)", key="exportIspdNodes|sizes conditional")
    elif wrote_w and wrote_h and not placed:
        rep.holds("XF", h.decl, h, ".nodes writes raw cellWidth_/cellHeight_")
    else:
        rep.violation("XF", h.decl, h, ".nodes does not write the raw cell sizes", "the reader stores them into cell_width/cell_height (raw)",
                      key="exportIspdNodes|sizes not raw")
    term = [(c, x) for c, _a, x in its if c[0] == "lit" and isinstance(c[1], str) and "terminal" in c[1]]
    if term:
        guards = ctx.guards(h, term[0][1]) or []
        from .common import is_fixed_test
        if any(is_fixed_test(gc) and val is True for gc, val, _a, _b in guards):
            rep.holds("XF", term[0][1], h, "'terminal' written exactly for fixed cells")
        else:
            rep.violation("XF", term[0][1], h, "'terminal' not tied to isFixed(i)", "", key="exportIspdNodes|terminal flag")
    else:
        rep.violation("XF", h.decl, h, "fixed flag never written", "", key="exportIspdNodes|no terminal")
    # ---- pl: position and orientation name
    p = prog.func1(CQ + "exportIspdPlace")
    its = stream_items(p)
    has = lambda q: any(c[0] == "call" and c[1] == q for c, _a, _x in its)
    ori = any(c[0] == "call" and c[1] == CQ + "toString" and any(t[0] == "call" and t[1] == CQ + "Circuit::orientation" for t in subterms(c)) for c, _a, _x in its)
    if has(CQ + "Circuit::x") and has(CQ + "Circuit::y") and ori:
        rep.holds("XF", p.decl, p, ".pl writes x(i), y(i) and toString(orientation(i))")
    else:
        rep.violation("XF", p.decl, p, ".pl does not write position and orientation name of every cell", "", key="exportIspdPlace|record incomplete")


def raw_centre_offset(v, raw, size, net, pin, global_pins=False):
    """v must be  circuit.<raw>[netLimits_[net] + pin] - 0.5 * circuit.<size>[pinCell(net, pin)]  in floating point."""
    if v[0] != "bin" or v[1] != "-":
        return False, "not a difference 'offset - half size'"
    a, b = v[2], v[3]
    if not (a[0] == "index" and a[1][0] == "field" and a[1][1] == CQ + "Circuit::" + raw):
        if a[0] == "call" and a[1].startswith(CQ + "Circuit::pin") and a[1].endswith("Offset"):
            return False, "placed (rotated/mirrored) offset %s combined with raw size: transformed twice when read back" % short(a[1])
        return False, "minuend is not the raw %s" % raw
    idx = a[2]
    okidx = idx[0] == "bin" and idx[1] == "+" and idx[2][0] == "index" and idx[2][1][1] == CQ + "Circuit::netLimits_" and idx[2][2] == net and idx[3] == pin
    if global_pins:
        okidx = idx == pin          # the loop variable is the global pin index itself
    if not okidx:
        return False, "raw offset index is %s, expected netLimits_[net] + pin" % pretty(idx)
    half = None
    if b[0] == "bin" and b[1] == "*":
        for l, s in ((b[2], b[3]), (b[3], b[2])):
            if l[0] == "lit" and str(l[1]).rstrip("fF") in ("0.5", ".5", "5.0E-1", "0.5E0"):
                half = s
    if b[0] == "bin" and b[1] == "/" and b[3][0] == "lit":
        return False, "half size computed by the division %s: integer halving truncates odd sizes, the reader adds back 0.5 * size" % pretty(b)
    if half is None:
        return False, "subtrahend %s is not 0.5 * size" % pretty(b)
    if not (half[0] == "index" and half[1][0] == "field" and half[1][1] == CQ + "Circuit::" + size):
        return False, "half of %s, expected raw %s" % (pretty(half), size)
    cidx = half[2]
    if global_pins and cidx[0] == "index" and cidx[1][0] == "field" and cidx[1][1] == CQ + "Circuit::pinCells_" and cidx[2] == pin:
        return True, ""
    if not (cidx[0] == "call" and cidx[1] == CQ + "Circuit::pinCell" and cidx[3] == net and cidx[4] == pin):
        return False, "size taken from cell %s, expected pinCell(net, pin)" % pretty(cidx)
    return True, ""
