"""Entry point: python3 -m cqverif.check <ID> [--tier quick|thorough] [--only-rule R]

exit 0  all rule instances hold (or only listed known findings remain)
exit 1  at least one violation not listed in known_findings.json
        (prints: VIOLATION property=<ID> replay=<path>)
exit 2  analysis broken (vanished anchor, unrecognised shape, parse failure, instance floor)
"""
import argparse
import importlib
import os
import sys
import traceback

sys.setrecursionlimit(10000)

from . import core
from .frontend import AnalysisBroken


def main(argv=None):
    ap = argparse.ArgumentParser()
    ap.add_argument("pid")
    ap.add_argument("--tier", default=os.environ.get("VERIF_TIER", "quick"), choices=["quick", "thorough"])
    ap.add_argument("--only-rule", default=None)
    ap.add_argument("--replay", default=None)
    a = ap.parse_args(argv)
    pid = a.pid.upper()
    try:
        seed = int(os.environ.get("VERIF_SEED", "0"))
    except ValueError:
        seed = 0
    try:
        mod = importlib.import_module("cqverif.rules." + pid.lower())
    except ImportError as e:
        print("no rule module for %s: %s" % (pid, e))
        return 2
    rep = core.Report(pid, a.tier, seed)
    try:
        ctx = core.Ctx()
        if getattr(ctx.prog, "aliases", None):
            rep.extra["renames_resolved"] = {c: {k: v for k, v in m.items() if v} for c, m in ctx.prog.aliases.items()}
            print("[%s] renamed declarations resolved against rules/decl_schema.json: %s" % (pid, rep.extra["renames_resolved"]))
        mod.run(ctx, rep, a.tier)
        if a.tier == "thorough":
            if hasattr(mod, "run_thorough"):
                mod.run_thorough(ctx, rep)
            from . import thorough
            thorough.run(pid, rep)
        return rep.finish(ctx, mod.EXPLANATION, getattr(mod, "ASSUMPTIONS", core_assumptions()), getattr(mod, "DECLINED", ()))
    except AnalysisBroken as e:
        return core.broken(pid, a.tier, str(e), seed)
    except Exception:
        return core.broken(pid, a.tier, "internal error in the checker:\n" + traceback.format_exc(), seed)


def core_assumptions():
    return [
        "clang 14 parser, overload resolution and implicit-conversion insertion (the AST is the type-checked program)",
        "frozen tables under /verif/rules (allow-lists, seeds, exceptions), each entry confirmed by reading the tree",
        "a data member or method missing from rules/decl_schema.json's class layout is matched to the declaration of the same type at the same position (or the only new one of that type): pure renames keep their rules",
        "the library is exactly the SOURCES list of CMakeLists.txt plus the headers it includes; no code hides writes behind macros",
        "external (std/boost/Eigen/lemon) functions behave as classified in cqverif/effects.py (read-only vs mutating tables); unknown ones are reported as escapes, never assumed harmless",
    ]


if __name__ == "__main__":
    sys.exit(main())
