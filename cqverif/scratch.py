"""Run checks against a scratch copy of the repository with one change applied (checker self-validation,
seed detection tables). Scratch copies live under a temporary directory outside /repo and /verif and are
removed as soon as the run is over."""
import json
import os
import shutil
import subprocess
import sys
import tempfile

from .frontend import VERIF

REPO = "/repo"


def make_copy():
    d = tempfile.mkdtemp(prefix="cqv_scratch_")
    shutil.copytree(os.path.join(REPO, "src"), os.path.join(d, "src"))
    shutil.copytree(os.path.join(REPO, "pycoloquinte"), os.path.join(d, "pycoloquinte"))
    shutil.copy(os.path.join(REPO, "CMakeLists.txt"), os.path.join(d, "CMakeLists.txt"))
    return d


def apply_patch(d, patch_path):
    r = subprocess.run(["patch", "-p1", "-s", "--no-backup-if-mismatch", "-f", "-i", patch_path], cwd=d, capture_output=True, text=True)
    return r.returncode == 0, (r.stdout + r.stderr)[-500:]


def apply_edit(d, rel, find, replace, count=1):
    p = os.path.join(d, rel)
    s = open(p).read()
    if s.count(find) < 1:
        return False, "pattern not found in %s" % rel
    s2 = s.replace(find, replace, count)
    open(p, "w").write(s2)
    return True, ""


def apply_regex(d, rel, pattern, replace):
    import re
    p = os.path.join(d, rel)
    s = open(p).read()
    s2, n = re.subn(pattern, replace, s)
    if n == 0:
        return False, "regex %r matched nothing in %s" % (pattern, rel)
    open(p, "w").write(s2)
    return True, ""


def run_check(d, pid, timeout=600):
    env = dict(os.environ)
    env["CQVERIF_REPO"] = d
    env["CQVERIF_CACHE"] = os.path.join(d, ".cache")
    env["CQVERIF_OUT"] = os.path.join(d, ".out")
    r = subprocess.run([sys.executable, "-m", "cqverif.check", pid, "--tier", "quick"], cwd=VERIF, env=env, capture_output=True,
                       text=True, timeout=timeout)
    rules = []
    lines = []
    for l in r.stdout.splitlines():
        if l.startswith("  breaks:") or l.startswith("  undecided:") or "ANALYSIS BROKEN" in l:
            lines.append(l.strip()[:300])
            if "[" in l and "]" in l:
                rules.append(l[l.index("[") + 1:l.index("]")])
    res = {"exit": r.returncode, "rules": sorted(set(rules)), "lines": lines}
    if any("ANALYSIS BROKEN" in l for l in lines) or (r.returncode not in (0, 1, 2)):
        res["tail"] = (r.stdout[-1500:] + r.stderr[-2500:])
    return res


def with_change(kind, spec, pids):
    """kind: 'patch' (spec = path) or 'edit' (spec = dict(file, find, replace)). Returns {pid: result} or {'error': ...}."""
    d = make_copy()
    try:
        if kind == "patch":
            ok, msg = apply_patch(d, spec)
        elif kind == "regex":
            ok, msg = True, ""
            for e in spec:
                ok, msg = apply_regex(d, e["file"], e["regex"], e["replace"])
                if not ok:
                    break
        else:
            ok, msg = apply_edit(d, spec["file"], spec["find"], spec["replace"])
        if not ok:
            return {"error": msg}
        return {pid: run_check(d, pid) for pid in pids}
    finally:
        shutil.rmtree(d, ignore_errors=True)
