"""Expression helpers over the resolved clang AST: stripping of implicit nodes,
canonical (structural) forms of access paths, callee resolution."""
from .model import inner, qt, kind

TRANSPARENT = {"ImplicitCastExpr", "ParenExpr", "MaterializeTemporaryExpr", "CXXBindTemporaryExpr",
               "ExprWithCleanups", "ConstantExpr", "SubstNonTypeTemplateParmExpr", "FullExpr"}
EXPLICIT_CASTS = {"CStyleCastExpr", "CXXStaticCastExpr", "CXXFunctionalCastExpr", "CXXConstCastExpr",
                  "CXXReinterpretCastExpr", "BuiltinBitCastExpr"}
NORETURN = {"__assert_fail", "abort", "exit", "_Exit", "terminate", "__builtin_unreachable",
            "__assert_perror_fail", "__throw_out_of_range_fmt", "quick_exit"}


def strip(e, casts=False):
    """Look through implicit / parenthesis wrappers (and explicit casts if asked)."""
    while isinstance(e, dict):
        k = e.get("kind")
        if k in TRANSPARENT or (casts and k in EXPLICIT_CASTS):
            ch = [c for c in inner(e) if isinstance(c, dict) and c.get("kind")]
            if not ch:
                return e
            e = ch[-1] if k in EXPLICIT_CASTS else ch[0]
            continue
        if k == "CXXConstructExpr" and casts:
            # copy/move construction of a single argument is value-transparent
            ch = [c for c in inner(e) if isinstance(c, dict) and c.get("kind")]
            if len(ch) == 1 and (_same_class(qt(e), qt(ch[0])) or _same_class(_desug(e), _desug(ch[0])) or _is_copy_ctor(e)):
                e = ch[0]
                continue
        return e
    return e


def _base_type(t):
    t = t.replace("const ", "").replace("&", "").replace("struct ", "").replace("class ", "").strip()
    return t


def _desug(n):
    t = n.get("type") or {}
    return t.get("desugaredQualType") or t.get("qualType", "")


def _is_copy_ctor(e):
    """Constructor whose single parameter is a (const) reference to the constructed class."""
    ct = (e.get("ctorType") or {}).get("qualType", "")
    if "(" not in ct:
        return False
    par = ct[ct.find("(") + 1:ct.rfind(")")]
    if "," in par.replace("<", "(").split("(")[0]:
        return False
    if not (par.rstrip().endswith("&")):
        return False
    return _base_type(par) in (_base_type(qt(e)), _base_type(_desug(e)))


def _same_class(a, b):
    return _base_type(a) == _base_type(b)


def children(e):
    return [c for c in inner(e) if isinstance(c, dict) and c.get("kind")]


def ref_decl(e):
    """For a DeclRefExpr: the full declaration node when resolvable, else the stub."""
    rd = e.get("referencedDecl")
    if rd is None:
        return None
    u = e.get("_u")
    if u is not None:
        return u.by_id.get(rd.get("id"), rd)
    return rd


def member_decl(e):
    u = e.get("_u")
    rid = e.get("referencedMemberDecl")
    if u is not None and rid is not None:
        return u.by_id.get(rid)
    return None


def callee_info(call):
    """Describe the callee of a call-like node.

    Returns dict: name (simple), qname (qualified if resolvable), decl (full decl or None),
    obj (object expression for member calls / operator calls with an object), args (list),
    is_member, external (bool: not in the analysed namespace).
    """
    k = call.get("kind")
    ch = children(call)
    if k == "CXXMemberCallExpr":
        me = strip(ch[0]) if ch else None
        if me is None or me.get("kind") != "MemberExpr":
            # call through pointer-to-member etc.
            return {"name": "?", "qname": "?", "decl": None, "obj": None, "args": ch[1:], "is_member": True,
                    "external": True, "callee_expr": me}
        d = member_decl(me)
        name = (d or {}).get("_alias") or me.get("name", "?")
        obj = children(me)[0] if children(me) else None
        return {"name": name, "qname": d.get("_q", name) if d else name, "decl": d, "obj": obj,
                "args": ch[1:], "is_member": True, "external": d is None, "callee_expr": me,
                "arrow": me.get("isArrow", False)}
    if k == "CXXOperatorCallExpr":
        ce = strip(ch[0]) if ch else None
        d = ref_decl(ce) if ce and ce.get("kind") == "DeclRefExpr" else None
        name = (d or {}).get("name", "?")
        full = d if d and "_q" in d else None
        args = ch[1:]
        return {"name": name, "qname": full["_q"] if full else name, "decl": full, "obj": args[0] if args else None,
                "args": args[1:], "is_member": True, "external": full is None, "callee_expr": ce, "operator": True}
    if k == "CallExpr":
        ce = strip(ch[0]) if ch else None
        if ce is not None and ce.get("kind") == "DeclRefExpr":
            d = ref_decl(ce)
            full = d if d and "_q" in d else None
            name = (d or {}).get("name", "?")
            return {"name": name, "qname": full["_q"] if full else name, "decl": full, "obj": None, "args": ch[1:],
                    "is_member": False, "external": full is None, "callee_expr": ce}
        if ce is not None and ce.get("kind") == "MemberExpr":
            # static member function called through an object, or function-pointer member
            d = member_decl(ce)
            name = ce.get("name", "?")
            return {"name": name, "qname": d.get("_q", name) if d else name, "decl": d, "obj": None, "args": ch[1:],
                    "is_member": False, "external": d is None, "callee_expr": ce}
        return {"name": "?", "qname": "?", "decl": None, "obj": None, "args": ch[1:], "is_member": False,
                "external": True, "callee_expr": ce}
    if k in ("CXXConstructExpr", "CXXTemporaryObjectExpr"):
        t = _base_type(qt(call))
        return {"name": "<ctor>", "qname": t + "::<ctor>", "decl": None, "obj": None, "args": ch,
                "is_member": False, "external": not t.startswith("coloquinte::") and not t.startswith("Transportation1d"),
                "ctor_type": t}
    return None


CALL_KINDS = ("CallExpr", "CXXMemberCallExpr", "CXXOperatorCallExpr", "CXXConstructExpr", "CXXTemporaryObjectExpr")


def is_noreturn_call(e):
    e = strip(e)
    if kind(e) == "CallExpr":
        ci = callee_info(e)
        return ci["name"] in NORETURN
    return False


def enum_name(e):
    """'CellOrientation::N' for a DeclRefExpr to an enumerator."""
    d = e.get("referencedDecl") or {}
    t = qt(e) or d.get("type", {}).get("qualType", "")
    t = t.replace("coloquinte::", "")
    return "%s::%s" % (t, d.get("name"))


_HOISTED = None


def canon(e, refs=True, _depth=0):
    """Structural canonical form of an expression (nested tuples).

    refs=True substitutes local reference variables by the path they are bound to.
    Casts (implicit and explicit) are looked through.
    """
    e = strip(e, casts=True)
    if not isinstance(e, dict) or not e.get("kind"):
        return ("none",)
    if _depth > 40:
        return ("?", "deep", e.get("id"))
    k = e.get("kind")
    ch = children(e)
    rec = lambda x: canon(x, refs, _depth + 1)
    if k == "DeclRefExpr":
        d = ref_decl(e) or {}
        dk = d.get("kind")
        if dk == "EnumConstantDecl":
            return ("enum", enum_name(e))
        if dk in ("VarDecl", "ParmVarDecl", "BindingDecl", "DecompositionDecl"):
            if refs and dk == "VarDecl" and "&" in qt(d) and not d.get("_rangevar"):
                init = [c for c in children(d)]
                if init and d.get("_p", {}).get("kind") == "DeclStmt":
                    return rec(init[-1])
            if refs and d.get("_rangevar") is not None:
                return ("elem", rec(d["_rangevar"]), d.get("id"))
            if dk == "VarDecl" and (d.get("constexpr") or qt(d).startswith("const ")) and "&" not in qt(d) and "*" not in qt(d):
                # a named constant (`constexpr int kFactor = 2;`) is the literal it names
                init = [c for c in children(d)]
                lit = strip(init[-1], casts=True) if init else None
                neg = False
                if lit is not None and lit.get("kind") == "UnaryOperator" and lit.get("opcode") == "-" and children(lit):
                    lit, neg = strip(children(lit)[0], casts=True), True
                if lit is not None and lit.get("kind") in ("IntegerLiteral", "FloatingLiteral", "CXXBoolLiteralExpr"):
                    v = rec(lit)
                    return ("un", "-", v) if neg else v
            if dk == "VarDecl" and (d.get("constexpr") or qt(d).rstrip().endswith("const") or (qt(d).startswith("const ") and "*" not in qt(d) and "&" not in qt(d))):
                # a named string constant (`const char *const kExt = ".aux";`, `const std::string kExt = ".aux";`) is the literal it names
                init = [c for c in children(d)]
                lit = init[-1] if init else None
                while lit is not None and lit.get("kind") in ("ImplicitCastExpr", "ExprWithCleanups", "MaterializeTemporaryExpr", "CXXConstructExpr",
                                                              "CXXBindTemporaryExpr", "CXXFunctionalCastExpr", "ParenExpr") and len(children(lit)) == 1:
                    lit = children(lit)[0]
                if lit is not None and lit.get("kind") == "StringLiteral":
                    return rec(lit)
            if dk == "VarDecl" and refs and "_p" in d:
                # a count read once into a local (`const int n = nbCells();`) is the call it aliases (rules/common.hoisted_count)
                h = d.get("_hoisted")
                if h is None:
                    global _HOISTED
                    if _HOISTED is None:
                        from .rules.common import hoisted_count as _hc
                        _HOISTED = _hc
                    h = _HOISTED(d)
                if h:
                    return h
            return ("var", d.get("id"), d.get("name"))
        return ("decl", dk, d.get("_q") or d.get("name"))
    if k == "MemberExpr":
        d = member_decl(e)
        base = rec(ch[0]) if ch else ("none",)
        if base == ("deref", ("this",)):
            base = ("this",)
        q = d.get("_q") if d else e.get("name")
        return ("field", q, base)
    if k == "CXXThisExpr":
        return ("this",)
    if k == "ArraySubscriptExpr":
        return ("index", rec(ch[0]), rec(ch[1]))
    if k in ("IntegerLiteral", "FloatingLiteral", "StringLiteral", "CharacterLiteral"):
        return ("lit", e.get("value"))
    if k == "CXXBoolLiteralExpr":
        return ("lit", bool(e.get("value")))
    if k == "CXXNullPtrLiteralExpr":
        return ("lit", None)
    if k == "BinaryOperator" or k == "CompoundAssignOperator":
        return ("bin", e.get("opcode"), rec(ch[0]), rec(ch[1]))
    if k == "UnaryOperator":
        op = e.get("opcode")
        x = rec(ch[0])
        if op == "*":
            return ("deref", x)
        if op == "-" and x[0] == "lit" and isinstance(x[1], str):
            return ("lit", "-" + x[1])
        return ("un", op, x)
    if k == "ConditionalOperator":
        return ("cond", rec(ch[0]), rec(ch[1]), rec(ch[2]))
    if k in CALL_KINDS:
        ci = callee_info(e)
        if k == "CXXOperatorCallExpr":
            if ci["name"] == "operator[]" and ci["obj"] is not None and ci["args"]:
                return ("index", rec(ci["obj"]), rec(ci["args"][0]))
            if ci["name"] == "operator*" and ci["obj"] is not None and not ci["args"]:
                return ("deref", rec(ci["obj"]))
            return ("op", ci["name"], rec(ci["obj"]) if ci["obj"] is not None else ("none",)) + tuple(rec(a) for a in ci["args"])
        if k == "CXXMemberCallExpr":
            if ci["name"].startswith("operator bool") or ci["name"].startswith("operator "):
                # conversion operator (e.g. vector<bool>::reference -> bool)
                return rec(ci["obj"]) if ci["obj"] is not None else ("none",)
            if ci["name"] == "at" and len(ci["args"]) == 1 and ci["external"]:
                return ("index", rec(ci["obj"]), rec(ci["args"][0]))
            obj = rec(ci["obj"]) if ci["obj"] is not None else ("none",)
            if obj == ("deref", ("this",)):
                obj = ("this",)
            return ("call", ci["qname"], obj) + tuple(rec(a) for a in ci["args"])
        if k in ("CXXConstructExpr", "CXXTemporaryObjectExpr"):
            return ("construct", ci["ctor_type"]) + tuple(rec(a) for a in ci["args"])
        return ("call", ci["qname"], ("none",)) + tuple(rec(a) for a in ci["args"])
    if k == "CXXDefaultArgExpr":
        return ("defaultarg",)
    if k == "InitListExpr":
        return ("initlist",) + tuple(rec(c) for c in ch)
    if k == "LambdaExpr":
        return ("lambda", e.get("id"))
    if k == "CXXThrowExpr":
        return ("throw",)
    if k == "UnaryExprOrTypeTraitExpr":
        return ("sizeof", e.get("name"))
    return ("?", k, e.get("id"))


def pretty(c):
    """Human-readable rendering of a canonical form."""
    if not isinstance(c, tuple) or not c:
        return str(c)
    t = c[0]
    if t == "var":
        return str(c[2])
    if t == "enum":
        return c[1]
    if t == "field":
        base = pretty(c[2])
        name = str(c[1]).split("::")[-1]
        return name if base == "this" else "%s.%s" % (base, name)
    if t == "this":
        return "this"
    if t == "index":
        return "%s[%s]" % (pretty(c[1]), pretty(c[2]))
    if t == "elem":
        return "elem(%s)" % pretty(c[1])
    if t == "lit":
        return str(c[1])
    if t == "bin":
        return "(%s %s %s)" % (pretty(c[2]), c[1], pretty(c[3]))
    if t == "un":
        return "%s%s" % (c[1], pretty(c[2]))
    if t == "deref":
        return "*%s" % pretty(c[1])
    if t == "cond":
        return "(%s ? %s : %s)" % (pretty(c[1]), pretty(c[2]), pretty(c[3]))
    if t == "call":
        name = str(c[1]).replace("coloquinte::", "")
        obj = pretty(c[2]) if c[2] != ("none",) else None
        args = ", ".join(pretty(a) for a in c[3:])
        if obj and obj != "this":
            return "%s.%s(%s)" % (obj, name.split("::")[-1], args)
        return "%s(%s)" % (name, args)
    if t == "op":
        return "%s(%s)" % (c[1], ", ".join(pretty(a) for a in c[2:]))
    if t == "construct":
        return "%s(%s)" % (c[1], ", ".join(pretty(a) for a in c[2:]))
    if t == "decl":
        return str(c[2])
    return "<%s>" % "/".join(str(x) for x in c[:2])


def subterms(c):
    """All sub-tuples of a canonical form (including itself)."""
    if isinstance(c, tuple):
        yield c
        for x in c[1:]:
            if isinstance(x, tuple):
                yield from subterms(x)


def mentions(c, pred):
    return any(pred(s) for s in subterms(c))


def fields_in(c):
    return [s[1] for s in subterms(c) if s and s[0] == "field"]


def root_fields(c):
    """Fields along the access path of an lvalue canonical form (outermost first)."""
    out = []
    while isinstance(c, tuple) and c:
        if c[0] == "field":
            out.append(c[1])
            c = c[2]
        elif c[0] in ("index", "elem", "deref"):
            c = c[1]
        elif c[0] == "call" and len(c) >= 3:
            # reference-returning accessor: continue through the object
            c = c[2]
        else:
            break
    return out[::-1]
