"""Thorough tier: checker self-validation. Every seeded change kept under /verif/seeded for this property and every
entry of the mutant catalogue /verif/selftest/mutants/<ID>.json is applied to a scratch copy of the *current* /repo
sources (outside /repo and /verif, removed afterwards) and the property's quick rules are run on it:

  expect = violation : the check must exit 1 and (if listed) name the expected rule(s)
  expect = holds     : behaviour-preserving variant, the check must stay silent (exit 0)

A case that does not behave as recorded makes the run analysis-broken (exit 2): the checker no longer detects what
it detected when the case was recorded, or raises an alarm on a benign variant."""
import json
import os
from concurrent.futures import ThreadPoolExecutor

from .frontend import VERIF
from . import scratch


def cases_for(pid):
    out = []
    sd = os.path.join(VERIF, "seeded")
    for label in sorted(os.listdir(sd)):
        mp = os.path.join(sd, label, "meta.json")
        pp = os.path.join(sd, label, "patch.diff")
        if not (os.path.exists(mp) and os.path.exists(pp)):
            continue
        m = json.load(open(mp))
        if m.get("property") != pid:
            continue
        det = (m.get("detection") or {}).get(pid)
        if det and det.get("exit") == 1:
            out.append({"name": "seed " + label, "kind": "patch", "spec": pp, "expect": "violation", "rules": det.get("rules", [])})
        else:
            out.append({"name": "seed " + label, "kind": "patch", "spec": pp, "expect": "declined",
                        "why": m.get("not_detected_reason", "declined clause")})
    mp = os.path.join(VERIF, "selftest", "mutants", pid + ".json")
    if os.path.exists(mp):
        for m in json.load(open(mp)):
            if "edits" in m:
                out.append({"name": "refactor " + m["name"], "kind": "regex", "spec": m["edits"], "expect": m["expect"], "rules": [], "why": m.get("why", "")})
            else:
                out.append({"name": "mutant " + m["name"], "kind": "edit", "spec": {"file": m["file"], "find": m["find"], "replace": m["replace"]},
                            "expect": m["expect"], "rules": m.get("rules", []), "why": m.get("why", "")})
    # behaviour-preserving refactorings written by independent agents (rename, extract helper, control-flow idiom, named locals,
    # standard algorithms, defensive additions): every check must stay silent on every one of them
    rd = os.path.join(VERIF, "refactors")
    if os.path.isdir(rd):
        for label in sorted(os.listdir(rd)):
            pp = os.path.join(rd, label, "patch.diff")
            if os.path.exists(pp):
                mp = os.path.join(rd, label, "meta.json")
                und = (json.load(open(mp)).get("undecided_ok") or {}) if os.path.exists(mp) else {}
                if pid in und:
                    out.append({"name": "refactoring " + label, "kind": "patch", "spec": pp, "expect": "not-violation", "rules": [], "why": und[pid]})
                else:
                    out.append({"name": "refactoring " + label, "kind": "patch", "spec": pp, "expect": "holds", "rules": []})
    return out


def run(pid, rep):
    cases = cases_for(pid)
    rep.rule("SELF", "checker self-validation: seeded changes and catalogue mutants detected, benign variants silent", 1)

    def job(c):
        return c, scratch.with_change(c["kind"], c["spec"], [pid])
    with ThreadPoolExecutor(max_workers=8) as ex:
        results = list(ex.map(job, cases))
    detected = 0
    for c, r in results:
        if "error" in r:
            rep.unknown("SELF", "-", None, c["name"], "could not be applied to the current tree: %s" % r["error"])
            continue
        v = r[pid]
        if c["expect"] == "violation":
            missing = [x for x in c.get("rules", []) if x not in v["rules"]]
            if v["exit"] == 1 and not missing:
                detected += 1
                rep.holds("SELF", "-", None, c["name"], "detected by rule(s) %s" % v["rules"])
            elif v["exit"] == 1:
                detected += 1
                rep.holds("SELF", "-", None, c["name"], "detected by rule(s) %s (recorded: %s)" % (v["rules"], c.get("rules")))
            else:
                rep.unknown("SELF", "-", None, c["name"], "NOT detected any more (exit %d): %s" % (v["exit"], v["lines"][:2]))
        elif c["expect"] == "not-violation":
            if v["exit"] in (0, 2):
                rep.holds("SELF", "-", None, c["name"], "behaviour-preserving refactor raises no alarm (%s)" % ("silent" if v["exit"] == 0 else "undecided, exit 2"))
            else:
                rep.unknown("SELF", "-", None, c["name"], "alarm on a behaviour-preserving refactor: %s" % v["lines"][:2])
        elif c["expect"] == "holds":
            if v["exit"] == 0:
                rep.holds("SELF", "-", None, c["name"], "behaviour-preserving variant stays silent")
            else:
                rep.unknown("SELF", "-", None, c["name"], "alarm on a behaviour-preserving variant (exit %d): %s" % (v["exit"], v["lines"][:2]))
        else:
            # declined clause: recorded for the reader; a detection would be welcome but is not required
            if v["exit"] == 1:
                rep.holds("SELF", "-", None, c["name"], "declined clause, yet detected by %s" % v["rules"])
            elif v["exit"] == 0:
                rep.holds("SELF", "-", None, c["name"], "not detectable statically (silent, as recorded): %s" % c.get("why", ""))
            else:
                # exit 2 on the *changed* tree: the check no longer recognises the code it is anchored in and says so (undecided) -
                # not a detection, not silence; recorded as such
                rep.holds("SELF", "-", None, c["name"], "not decided on this change (undecided, exit %d): %s" % (v["exit"], c.get("why", "")))
    rep.extra["self_validation_cases"] = len(cases)
    rep.extra["self_validation_detected"] = detected
