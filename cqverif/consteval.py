"""Concrete constant folding of straight-line C++ (constructors that assign members, range checks that throw) over the
clang AST, with IEEE single/double precision kept apart.  Used for finite-domain clauses such as "the parameters built for
every effort 1..9 pass their own check": the source is folded for each of the nine inputs, nothing is compiled or run.

Values: int, float (double), F32 wrapper is not needed - a value whose static type is `float` is rounded to binary32 right
after it is produced; bool; ("str", s); EnumVal-like ("enum", type, int); Obj for class-typed members; list for arrays.
"""
import math
import struct

from .model import inner, qt, desugared, loc_str
from .expr import children, strip, callee_info, ref_decl, member_decl, is_noreturn_call


class Unsupported(Exception):
    pass


class Thrown(Exception):
    def __init__(self, msg, node):
        Exception.__init__(self, msg)
        self.msg = msg
        self.node = node


class AssertFailed(Exception):
    def __init__(self, node):
        Exception.__init__(self, "assertion fails")
        self.node = node


class _Return(Exception):
    def __init__(self, v):
        self.v = v


class Obj:
    def __init__(self, cls):
        self.cls = cls
        self.fields = {}

    def __repr__(self):
        return "<%s %s>" % (self.cls, self.fields)


def r32(x):
    try:
        return struct.unpack("f", struct.pack("f", x))[0]
    except OverflowError:
        return math.inf if x > 0 else -math.inf


def _ty(n):
    return (desugared(n) or qt(n) or "").replace("const ", "").strip()


INT_TYPES = ("int", "unsigned int", "long", "long long", "unsigned long", "unsigned long long", "short", "char", "size_t")
MATH = {"round": lambda x: float(math.floor(abs(x) + 0.5) * (1 if x >= 0 else -1)), "exp": math.exp, "log": math.log, "sqrt": math.sqrt,
        "abs": abs, "fabs": abs, "floor": lambda x: float(math.floor(x)), "ceil": lambda x: float(math.ceil(x)),
        "log2": math.log2, "log10": math.log10, "exp2": lambda x: 2.0 ** x}


class ConstEval:
    def __init__(self, prog, max_steps=200000):
        self.prog = prog
        self.steps = 0
        self.max_steps = max_steps

    # ---- entry points ----
    def construct(self, cls_q, args):
        """Run the constructor of class cls_q that takes len(args) explicit arguments (defaults filled in)."""
        name = cls_q.split("::")[-1]
        cands = [f for f in self.prog.funcs_by_q.get(cls_q + "::" + name, []) if f.kind == "CXXConstructorDecl"]
        cands = [f for f in cands if self._arity_ok(f, len(args))]
        if len(cands) != 1:
            raise Unsupported("constructor of %s with %d argument(s): %d candidate(s)" % (cls_q, len(args), len(cands)))
        f = cands[0]
        obj = Obj(cls_q)
        self._call(f, args, obj)
        return obj

    def call_method(self, obj, name, args=()):
        cands = [f for f in self.prog.funcs_by_q.get(obj.cls + "::" + name, []) if self._arity_ok(f, len(args))]
        if len(cands) != 1:
            raise Unsupported("method %s::%s: %d candidate(s)" % (obj.cls, name, len(cands)))
        return self._call(cands[0], list(args), obj)

    @staticmethod
    def _arity_ok(f, n):
        req = len([p for p in f.params if not children(p)])
        return req <= n <= len(f.params)

    # ---- calls ----
    def _call(self, f, args, this):
        if f.body is None:
            raise Unsupported("%s has no body" % f.qname)
        env = {"this": this}
        for i, p in enumerate(f.params):
            if i < len(args):
                env[p.get("id")] = self._convert(args[i], _ty(p))
            else:
                d = children(p)
                if not d:
                    raise Unsupported("missing argument %d of %s" % (i, f.qname))
                env[p.get("id")] = self._convert(self.expr(d[-1], env), _ty(p))
        for ci in f.ctor_inits:
            an = ci.get("anyInit") or {}
            ch = children(ci)
            if an.get("kind") == "FieldDecl" or an.get("name"):
                if not ch:
                    continue
                v = self.expr(ch[-1], env)
                d = f.unit.by_id.get(an.get("id")) if an.get("id") else None
                this.fields[an.get("name")] = self._convert(v, _ty(d) if d is not None else "")
            elif ch:
                raise Unsupported("base-class initialiser in %s" % f.qname)
        try:
            self.stmt(f.body, env)
        except _Return as r:
            return r.v
        return None

    def _enum_value(self, d):
        from .tables import Evaluator
        if not hasattr(self, "_tev"):
            self._tev = Evaluator(self.prog)
        return self._tev._enum_const_value(d) if "_p" in d else None

    def _convert(self, v, t):
        if isinstance(v, tuple) and v and v[0] == "enum" and t in INT_TYPES and len(v) > 3 and v[3] is not None:
            return int(v[3])
        if isinstance(v, bool) and t != "bool":
            v = int(v)
        if t == "float" and isinstance(v, (int, float)):
            return r32(float(v))
        if t in ("double", "long double") and isinstance(v, (int, float)):
            return float(v)
        if t in INT_TYPES and isinstance(v, float):
            return int(v)
        if t == "bool" and isinstance(v, (int, float)):
            return bool(v)
        return v

    # ---- statements ----
    def stmt(self, s, env):
        self.steps += 1
        if self.steps > self.max_steps:
            raise Unsupported("evaluation budget exceeded")
        if not isinstance(s, dict) or not s.get("kind"):
            return
        k = s.get("kind")
        ch = [c for c in inner(s) if isinstance(c, dict)]
        if k == "CompoundStmt":
            for c in ch:
                self.stmt(c, env)
        elif k == "ReturnStmt":
            raise _Return(self.expr(ch[0], env) if ch and ch[0].get("kind") else None)
        elif k == "IfStmt":
            i = 0
            if s.get("hasInit"):
                self.stmt(ch[i], env)
                i += 1
            if s.get("hasVar"):
                self.stmt(ch[i], env)
                i += 1
            c = self.expr(ch[i], env)
            if self._truth(c):
                self.stmt(ch[i + 1], env)
            elif len(ch) > i + 2:
                self.stmt(ch[i + 2], env)
        elif k == "DeclStmt":
            for d in ch:
                if d.get("kind") == "VarDecl":
                    init = children(d)
                    env[d.get("id")] = self._convert(self.expr(init[-1], env), _ty(d)) if init else None
        elif k == "ForStmt":
            init, _cv, cond, inc, body = (ch + [None] * 5)[:5]
            if init is not None and init.get("kind"):
                self.stmt(init, env)
            n = 0
            while cond is None or not cond.get("kind") or self._truth(self.expr(cond, env)):
                self.stmt(body, env)
                if inc is not None and inc.get("kind"):
                    self.expr(inc, env)
                n += 1
                if n > 10000:
                    raise Unsupported("loop does not terminate within 10000 iterations")
        elif k == "WhileStmt":
            n = 0
            while self._truth(self.expr(ch[-2], env)):
                self.stmt(ch[-1], env)
                n += 1
                if n > 10000:
                    raise Unsupported("loop does not terminate within 10000 iterations")
        elif k == "NullStmt":
            return
        elif k in ("AttributedStmt", "LabelStmt"):
            self.stmt(ch[-1], env)
        elif k in ("SwitchStmt", "DoStmt", "CXXForRangeStmt", "CXXTryStmt", "GotoStmt", "BreakStmt", "ContinueStmt", "CaseStmt", "DefaultStmt"):
            raise Unsupported("%s at %s" % (k, loc_str(s)))
        else:
            self.expr(s, env)

    @staticmethod
    def _truth(v):
        if isinstance(v, (bool, int, float)):
            return bool(v)
        raise Unsupported("non-scalar condition")

    # ---- expressions ----
    def lvalue(self, e, env):
        """(container, key) such that container[key] is the storage designated by e."""
        s = strip(e)
        k = s.get("kind")
        if k == "DeclRefExpr":
            d = ref_decl(s) or {}
            return env, d.get("id")
        if k == "MemberExpr":
            base = children(s)
            o = self.expr(base[0], env) if base else env.get("this")
            if not isinstance(o, Obj):
                raise Unsupported("member of a non-object at %s" % loc_str(s))
            return o.fields, s.get("name")
        if k == "ArraySubscriptExpr":
            b, i = children(s)
            arr = self.expr(b, env)
            idx = self.expr(i, env)
            if not isinstance(arr, list) or not isinstance(idx, int):
                raise Unsupported("array subscript at %s" % loc_str(s))
            if idx < 0 or idx >= len(arr):
                raise Thrown("array index %d out of bounds [0, %d)" % (idx, len(arr)), s)
            return arr, idx
        raise Unsupported("assignment target %s at %s" % (k, loc_str(s)))

    def expr(self, e, env):
        self.steps += 1
        if self.steps > self.max_steps:
            raise Unsupported("evaluation budget exceeded")
        k = e.get("kind")
        ch = children(e)
        if k in ("ParenExpr", "ExprWithCleanups", "MaterializeTemporaryExpr", "CXXBindTemporaryExpr", "ConstantExpr", "CXXFunctionalCastExpr") and ch:
            v = self.expr(ch[-1], env)
            return self._convert(v, _ty(e)) if k == "CXXFunctionalCastExpr" else v
        if k in ("ImplicitCastExpr", "CStyleCastExpr", "CXXStaticCastExpr"):
            v = self.expr(ch[-1], env)
            ck = e.get("castKind")
            if ck in ("FloatingCast", "IntegralToFloating", "FloatingToIntegral", "IntegralCast", "IntegralToBoolean", "FloatingToBoolean"):
                return self._convert(v, _ty(e))
            return v
        if k == "IntegerLiteral":
            return int(e.get("value"))
        if k == "FloatingLiteral":
            v = float(e.get("value"))
            return r32(v) if _ty(e) == "float" else v
        if k == "CXXBoolLiteralExpr":
            return bool(e.get("value"))
        if k == "StringLiteral":
            return ("str", e.get("value", "").strip('"'))
        if k == "CXXThisExpr":
            return env.get("this")
        if k == "DeclRefExpr":
            d = ref_decl(e) or {}
            if d.get("kind") == "EnumConstantDecl":
                return ("enum", qt(e), d.get("name"), self._enum_value(d))
            if d.get("id") in env:
                return env[d.get("id")]
            raise Unsupported("free variable %s at %s" % (d.get("name"), loc_str(e)))
        if k == "MemberExpr":
            o = self.expr(ch[0], env) if ch else env.get("this")
            if isinstance(o, Obj):
                if e.get("name") not in o.fields:
                    raise Unsupported("member %s read before it is set at %s" % (e.get("name"), loc_str(e)))
                return o.fields[e.get("name")]
            raise Unsupported("member access at %s" % loc_str(e))
        if k == "InitListExpr":
            return [self.expr(c, env) for c in ch]
        if k == "ArraySubscriptExpr":
            c, key = self.lvalue(e, env)
            return c[key]
        if k == "UnaryOperator":
            op = e.get("opcode")
            if op in ("++", "--"):
                c, key = self.lvalue(ch[0], env)
                old = c[key]
                c[key] = old + (1 if op == "++" else -1)
                return old if e.get("isPostfix") else c[key]
            v = self.expr(ch[0], env)
            if op in ("*", "&") and isinstance(v, Obj):
                return v            # `*this` / `&obj` handed to a helper: objects are passed by identity
            if op == "!":
                return not self._truth(v)
            if op == "-":
                return self._convert(-v, _ty(e))
            if op == "+":
                return v
            raise Unsupported("unary %s" % op)
        if k in ("BinaryOperator", "CompoundAssignOperator"):
            op = e.get("opcode")
            if op == "&&":
                return self._truth(self.expr(ch[0], env)) and self._truth(self.expr(ch[1], env))
            if op == "||":
                return self._truth(self.expr(ch[0], env)) or self._truth(self.expr(ch[1], env))
            if op == "=":
                v = self.expr(ch[1], env)
                c, key = self.lvalue(ch[0], env)
                c[key] = self._convert(v, _ty(ch[0]))
                return c[key]
            if op == ",":
                self.expr(ch[0], env)
                return self.expr(ch[1], env)
            if k == "CompoundAssignOperator":
                c, key = self.lvalue(ch[0], env)
                b = self.expr(ch[1], env)
                ct = (e.get("computeResultType") or {}).get("qualType", _ty(e))
                v = self._arith(op[:-1], self._convert(c[key], ct), self._convert(b, ct), ct, e)
                c[key] = self._convert(v, _ty(ch[0]))
                return c[key]
            a, b = self.expr(ch[0], env), self.expr(ch[1], env)
            if op in ("<", "<=", ">", ">=", "==", "!="):
                if isinstance(a, tuple) or isinstance(b, tuple):
                    ka = a[:3] if isinstance(a, tuple) and a and a[0] == "enum" else a
                    kb = b[:3] if isinstance(b, tuple) and b and b[0] == "enum" else b
                    if op == "==":
                        return ka == kb
                    if op == "!=":
                        return ka != kb
                    raise Unsupported("ordering of non-numbers")
                return {"<": a < b, "<=": a <= b, ">": a > b, ">=": a >= b, "==": a == b, "!=": a != b}[op]
            return self._arith(op, a, b, _ty(e), e)
        if k == "ConditionalOperator":
            if is_noreturn_call(ch[2]) or is_noreturn_call(ch[1]):
                ok = self._truth(self.expr(ch[0], env))
                bad_arm = ch[2] if is_noreturn_call(ch[2]) else ch[1]
                if (bad_arm is ch[2]) != ok:
                    raise AssertFailed(e)
                return None
            return self.expr(ch[1] if self._truth(self.expr(ch[0], env)) else ch[2], env)
        if k == "CXXThrowExpr":
            msg = ""
            from .model import walk
            for x in walk(e):
                if x.get("kind") == "StringLiteral":
                    msg = x.get("value", "").strip('"')
                    break
            raise Thrown(msg, e)
        if k == "CXXDefaultArgExpr":
            raise Unsupported("default argument outside a call")
        if k in ("CXXConstructExpr", "CXXTemporaryObjectExpr"):
            t = _ty(e)
            if t.startswith("coloquinte::") or t.split("::")[0] in ("coloquinte",):
                args = [self.expr(a, env) for a in ch if a.get("kind") != "CXXDefaultArgExpr"]
                if len(args) == 1 and isinstance(args[0], Obj) and args[0].cls == t:
                    return args[0]
                return self.construct(t, args)
            real = [c for c in ch if c.get("kind") != "CXXDefaultArgExpr"]
            if len(real) == 1:
                return self.expr(real[0], env)
            raise Unsupported("construction of %s at %s" % (t, loc_str(e)))
        if k in ("CallExpr", "CXXMemberCallExpr"):
            ci = callee_info(e)
            name = ci["name"]
            if is_noreturn_call(e):
                raise Thrown("call to %s" % name, e)
            d = ci.get("decl")
            fs = []
            if d is not None:
                mn = d.get("mangledName")
                if mn and mn in self.prog.funcs:
                    fs = [self.prog.funcs[mn]]
                else:
                    fs = [f for f in self.prog.funcs_by_q.get(d.get("_q", ""), []) if f.type == qt(d)]
            fs = [f for f in fs if f.body is not None]
            args_nodes = ci["args"]
            if len(fs) == 1:
                f = fs[0]
                args = []
                for i, a in enumerate(args_nodes):
                    if a.get("kind") == "CXXDefaultArgExpr":
                        break
                    args.append(self.expr(a, env))
                this = None
                if k == "CXXMemberCallExpr":
                    this = self.expr(ci["obj"], env) if ci["obj"] is not None else env.get("this")
                    if not isinstance(this, Obj):
                        raise Unsupported("method call on a non-object at %s" % loc_str(e))
                return self._convert(self._call(f, args, this), f.type.split("(")[0].strip())
            if name in MATH and len(args_nodes) == 1:
                v = self.expr(args_nodes[0], env)
                r = MATH[name](float(v)) if name not in ("abs",) else abs(v)
                return self._convert(r, _ty(e))
            if name in ("min", "max") and len(args_nodes) == 2:
                a, b = self.expr(args_nodes[0], env), self.expr(args_nodes[1], env)
                return min(a, b) if name == "min" else max(a, b)
            if name == "pow" and len(args_nodes) == 2:
                return self._convert(float(self.expr(args_nodes[0], env)) ** float(self.expr(args_nodes[1], env)), _ty(e))
            raise Unsupported("call to %s at %s" % (ci["qname"], loc_str(e)))
        if k == "LambdaExpr":
            # a closure value: the lambda and the environment it was created in (captures by reference and by copy are the same
            # thing for the straight-line code folded here: nothing is assigned between creation and call)
            if e.get("_lam") is None:
                raise Unsupported("lambda without a body at %s" % loc_str(e))
            return ("closure", e["_lam"], env)
        if k == "CXXConstructExpr" and len(ch) == 1:
            v = self.expr(ch[0], env)
            if isinstance(v, tuple) and v and v[0] == "closure":
                return v
        if k == "CXXOperatorCallExpr":
            ci = callee_info(e)
            if ci and ci["name"] == "operator()" and ci["obj"] is not None:
                fn = self.expr(ci["obj"], env)
                if isinstance(fn, tuple) and fn and fn[0] == "closure":
                    lam, cenv = fn[1], fn[2]
                    env2 = dict(cenv)
                    for i, p_ in enumerate(lam.params):
                        if i >= len(ci["args"]):
                            raise Unsupported("missing lambda argument at %s" % loc_str(e))
                        env2[p_.get("id")] = self._convert(self.expr(ci["args"][i], env), _ty(p_))
                    try:
                        self.stmt(lam.body, env2)
                    except _Return as r:
                        return r.v
                    return None
            raise Unsupported("overloaded operator at %s" % loc_str(e))
        raise Unsupported("%s at %s" % (k, loc_str(e)))

    def _arith(self, op, a, b, t, node):
        if isinstance(a, bool):
            a = int(a)
        if isinstance(b, bool):
            b = int(b)
        if not isinstance(a, (int, float)) or not isinstance(b, (int, float)):
            raise Unsupported("arithmetic on non-numbers at %s" % loc_str(node))
        if op == "+":
            v = a + b
        elif op == "-":
            v = a - b
        elif op == "*":
            v = a * b
        elif op == "/":
            if t in INT_TYPES:
                if b == 0:
                    raise Thrown("integer division by zero", node)
                v = abs(a) // abs(b) * (1 if (a >= 0) == (b >= 0) else -1)
            else:
                if b == 0:
                    v = math.inf if a > 0 else (-math.inf if a < 0 else math.nan)
                else:
                    v = a / b
        elif op == "%":
            if b == 0:
                raise Thrown("integer modulo by zero", node)
            v = abs(a) % abs(b) * (1 if a >= 0 else -1)
        else:
            raise Unsupported("binary %s" % op)
        return self._convert(v, t)
