"""Front end: compilation units, flags, filtered clang JSON AST dumps, loader.

Everything here reads the *current* working tree of the repository (REPO) on
every run; dumps are cached by a content hash of every file that can influence
them, so a byte change anywhere under src/ or pycoloquinte/ invalidates the
cache.
"""
import hashlib
import json
import os
import re
import shutil
import subprocess
import sys
import time
from concurrent.futures import ThreadPoolExecutor

VERIF = os.path.dirname(os.path.dirname(os.path.abspath(__file__)))
REPO = os.environ.get("CQVERIF_REPO", "/repo")
CACHE = os.environ.get("CQVERIF_CACHE", os.path.join(VERIF, ".cache"))
CLANG = shutil.which("clang++") or "/usr/bin/clang++"


class AnalysisBroken(Exception):
    """The analysis itself cannot be carried out (exit 2, never pass / violation)."""


def repo_path(*p):
    return os.path.join(REPO, *p)


# --------------------------------------------------------------------------
# units and flags


def cmake_sources():
    """The SET(SOURCES ...) list of CMakeLists.txt: what the build covers."""
    txt = open(repo_path("CMakeLists.txt")).read()
    m = re.search(r"SET\s*\(\s*SOURCES\s+(.*?)\)", txt, re.S | re.I)
    if not m:
        raise AnalysisBroken("CMakeLists.txt: SET(SOURCES ...) not found")
    srcs = [s for s in m.group(1).split() if s.endswith(".cpp")]
    if not srcs:
        raise AnalysisBroken("CMakeLists.txt: empty SOURCES list")
    return srcs


def disk_sources():
    out = []
    for root, _dirs, files in os.walk(repo_path("src")):
        for f in files:
            if f.endswith(".cpp"):
                out.append(os.path.relpath(os.path.join(root, f), REPO))
    return sorted(out)


def compdb_flags():
    """-D/-I flags of the real build (ninja -t compdb), or a built-in default."""
    build = repo_path("_build")
    flags, origin = None, "builtin"
    if os.path.exists(os.path.join(build, "build.ninja")) and shutil.which("ninja"):
        try:
            out = subprocess.run(["ninja", "-C", build, "-t", "compdb"], capture_output=True,
                                 text=True, timeout=60).stdout
            db = json.loads(out)
            for e in db:
                if e.get("file", "").endswith("src/coloquinte.cpp"):
                    toks = e["command"].split()
                    flags = [t for t in toks if t.startswith("-D") and t != "-DNDEBUG"]
                    origin = "ninja -t compdb"
                    break
        except Exception:
            flags = None
    if flags is None:
        flags = ["-DBOOST_TEST_DYN_LINK"]
    # include paths are always those of CMakeLists (relative to REPO so that a
    # scratch copy is analysed with its own headers)
    flags += ["-I" + repo_path("src")]
    return flags, origin


BASE_FLAGS = ["-fsyntax-only", "-std=gnu++17", "-UNDEBUG", "-Wno-everything"]


def tree_hash():
    h = hashlib.sha256()
    for sub in ("src", "pycoloquinte"):
        for root, dirs, files in os.walk(repo_path(sub)):
            dirs.sort()
            for f in sorted(files):
                p = os.path.join(root, f)
                h.update(os.path.relpath(p, REPO).encode())
                h.update(b"\0")
                try:
                    h.update(open(p, "rb").read())
                except OSError:
                    pass
                h.update(b"\0")
    h.update(open(repo_path("CMakeLists.txt"), "rb").read())
    for root, dirs, files in os.walk(os.path.join(VERIF, "stubs")):
        dirs.sort()
        for f in sorted(files):
            h.update(open(os.path.join(root, f), "rb").read())
    h.update(b"v4")
    return h.hexdigest()[:20]


def _filter_for(unit):
    if unit.endswith("transportation_1d.cpp"):
        return "Transportation1d"
    return "coloquinte"


_FUNC_DEF = re.compile(r"^(?:static\s+|inline\s+|constexpr\s+)*[A-Za-z_][\w:<>,\s\*&]*?[\s\*&](\w+)\s*\([^;{}()]*(?:\([^()]*\)[^;{}()]*)*\)\s*(?:const\s*)?(?:noexcept\s*)?\{", re.M)


def _extra_filters(unit):
    """Units whose classes live in the global namespace are dumped with a class-name filter; free functions defined in such a
    unit (file-local helpers) would be invisible. Their names are collected from the source text and dumped as well."""
    main = _filter_for(unit)
    if main == "coloquinte":
        return []
    try:
        src = open(repo_path(unit)).read()
    except OSError:
        return []
    names = []
    for m in _FUNC_DEF.finditer(src):
        n = m.group(1)
        before = src[m.start():m.start(1)].rstrip()
        if before.endswith("::") or main in n or n in ("if", "for", "while", "switch", "return", "main") or n in names:
            continue
        names.append(n)
    return names


def _dump_one(unit, flags, outdir):
    out = os.path.join(outdir, unit.replace("/", "__") + ".json")
    if os.path.exists(out) and os.path.getsize(out) > 0:
        return out, 0.0, ""
    t = time.time()
    tmp = out + ".tmp%d" % os.getpid()
    err = ""
    with open(tmp, "wb") as fo:
        for flt in [_filter_for(unit)] + _extra_filters(unit):
            cmd = [CLANG] + BASE_FLAGS + flags + ["-Xclang", "-ast-dump=json", "-Xclang", "-ast-dump-filter=" + flt, repo_path(unit)]
            r = subprocess.run(cmd, stdout=fo, stderr=subprocess.PIPE)
            err = r.stderr.decode(errors="replace")
            if r.returncode != 0:
                break
    if r.returncode != 0 or os.path.getsize(tmp) == 0:
        os.unlink(tmp)
        raise AnalysisBroken("clang failed on %s:\n%s" % (unit, err[-2000:]))
    os.rename(tmp, out)
    return out, time.time() - t, err


def dump_file(path, flt="coloquinte", extra_flags=()):
    """Dump one stand-alone file (self-test positive controls, stubs). Cached by content."""
    flags, _o = compdb_flags()
    h = hashlib.sha256(open(path, "rb").read() + " ".join(list(flags) + list(extra_flags) + [flt]).encode() + tree_hash().encode()).hexdigest()[:20]
    outdir = os.path.join(CACHE, "files")
    os.makedirs(outdir, exist_ok=True)
    out = os.path.join(outdir, os.path.basename(path) + "." + h + ".json")
    if os.path.exists(out) and os.path.getsize(out) > 0:
        return out
    cmd = [CLANG] + BASE_FLAGS + flags + list(extra_flags) + ["-Xclang", "-ast-dump=json", "-Xclang",
                                                               "-ast-dump-filter=" + flt, path]
    tmp = out + ".tmp%d" % os.getpid()
    with open(tmp, "wb") as fo:
        r = subprocess.run(cmd, stdout=fo, stderr=subprocess.PIPE)
    if r.returncode != 0 or os.path.getsize(tmp) == 0:
        err = r.stderr.decode(errors="replace")
        os.unlink(tmp)
        raise AnalysisBroken("clang failed on %s:\n%s" % (path, err[-3000:]))
    os.rename(tmp, out)
    return out


def _evict(keep):
    try:
        ents = [(os.path.getmtime(os.path.join(CACHE, d)), d) for d in os.listdir(CACHE)]
    except OSError:
        return
    ents = [e for e in ents if e[1] != "files"]
    ents.sort(reverse=True)
    for _, d in ents[keep:]:
        shutil.rmtree(os.path.join(CACHE, d), ignore_errors=True)


def dump_units(units, extra=None):
    """Dump (or fetch from the cache) the filtered ASTs. Returns {unit: path}, info."""
    flags, origin = compdb_flags()
    th = tree_hash()
    outdir = os.path.join(CACHE, th)
    os.makedirs(outdir, exist_ok=True)
    os.utime(outdir)
    _evict(3)
    res = {}
    t0 = time.time()
    with ThreadPoolExecutor(max_workers=min(16, os.cpu_count() or 4)) as ex:
        futs = {u: ex.submit(_dump_one, u, flags, outdir) for u in units}
        for u, f in futs.items():
            res[u] = f.result()[0]
    info = {"flags": BASE_FLAGS + flags, "flags_origin": origin, "tree_hash": th,
            "dump_wall_s": round(time.time() - t0, 2)}
    return res, info


# --------------------------------------------------------------------------
# loader


def _thread_locs(node, st):
    """Re-thread clang's delta-encoded file/line fields, in print order."""
    # iterative to avoid recursion limits
    stack = [node]
    while stack:
        n = stack.pop()
        if isinstance(n, dict):
            if "offset" in n and "col" in n:
                if "file" in n:
                    st[0] = n["file"]
                else:
                    n["file"] = st[0]
                if "line" in n:
                    st[1] = n["line"]
                else:
                    n["line"] = st[1]
                continue
            # children in document order: push reversed
            items = [v for k, v in n.items() if isinstance(v, (dict, list)) and k != "includedFrom"]
            stack.extend(reversed(items))
        elif isinstance(n, list):
            stack.extend(reversed(n))


def _prune_comments(node):
    """Documentation comments (`///`, `/** */`) are attached to declarations as FullComment children; they are not code and
    must not be mistaken for an initialiser (the last child of a VarDecl)."""
    stack = [node]
    while stack:
        n = stack.pop()
        ch = n.get("inner")
        if not ch:
            continue
        if any(isinstance(c, dict) and str(c.get("kind", "")).endswith("Comment") for c in ch):
            ch = [c for c in ch if not (isinstance(c, dict) and str(c.get("kind", "")).endswith("Comment"))]
            n["inner"] = ch
        stack.extend(c for c in ch if isinstance(c, dict))


def load_dump(path):
    s = open(path).read()
    dec = json.JSONDecoder()
    i, n = 0, len(s)
    objs = []
    while i < n:
        while i < n and s[i] in " \t\r\n":
            i += 1
        if i >= n:
            break
        if s[i] != "{":
            j = s.find("\n", i)
            i = n if j < 0 else j + 1
            continue
        o, i = dec.raw_decode(s, i)
        _thread_locs(o, [None, None])
        _prune_comments(o)
        objs.append(o)
    return objs
