"""Use classification of lvalue occurrences (read / write / escape) and
per-function effect summaries (fields written, callees), closed over the call
graph.

The classifier climbs from an occurrence of a storage location (a MemberExpr
naming a field, a DeclRefExpr naming a variable) through its parents and decides
from the *shape of the resolved AST* whether the location may be modified through
that occurrence. Anything not recognised is reported as 'escape' (never silently
as a read)."""
from .model import inner, qt, kind, loc_str, walk, walk_no_lambda
from .expr import (children, strip, callee_info, member_decl, ref_decl, canon, root_fields,
                   CALL_KINDS, TRANSPARENT, EXPLICIT_CASTS)

READ, WRITE, ESCAPE = "read", "write", "escape"

# std container / utility members, by behaviour
ALIAS_RETURNING = {"operator[]", "at", "front", "back", "begin", "end", "data", "rbegin", "rend", "find",
                   "lower_bound", "upper_bound", "top", "value", "operator*", "operator->", "get", "first", "second"}
MUTATING = {"push_back", "emplace_back", "clear", "resize", "assign", "insert", "erase", "pop_back", "swap",
            "reserve", "shrink_to_fit", "emplace", "push", "pop", "seed", "reset", "emplace_front", "push_front",
            "pop_front", "fill", "merge", "sort", "unique", "reverse", "operator=", "operator+=", "operator-=",
            "operator*=", "operator/=", "operator++", "operator--", "setFromTriplets", "setZero", "setTolerance",
            "setMaxIterations", "compute", "discard", "open", "close", "precision", "str", "operator<<", "operator>>",
            "operator()", "wait", "operator|=", "operator&=", "flip", "set"}
# members of std containers whose *arguments* are only read (copied into the container)
ARGS_READ_ONLY = {"push_back", "emplace_back", "insert", "assign", "resize", "push", "emplace", "count", "find",
                  "at", "operator[]", "reserve", "erase", "emplace_front", "push_front", "lower_bound",
                  "upper_bound", "seed", "coeffRef", "setFromTriplets", "solveWithGuess", "solve", "compute",
                  "setTolerance", "setMaxIterations", "str", "precision", "substr", "append", "compare",
                  "open", "write"}
# free functions of std that only read through the iterators / references they get
READONLY_ALGOS = {"max_element", "min_element", "accumulate", "find", "find_if", "count", "count_if", "any_of",
                  "all_of", "none_of", "equal", "lower_bound", "upper_bound", "distance", "is_sorted", "max", "min",
                  "minmax_element", "binary_search", "adjacent_find", "inner_product", "abs", "sqrt", "pow", "exp",
                  "log", "round", "floor", "ceil", "isfinite", "isnan", "clamp", "to_string", "get", "make_pair",
                  "make_tuple", "lround", "llround", "fabs", "make_optional", "stoi", "cref", "mismatch",
                  "lexicographical_compare", "includes", "next", "prev", "tie", "forward_as_tuple", "size",
                  "begin", "end", "for_each_n", "xl", "xh", "yl", "yh"}
MUTATING_ALGOS = {"sort", "stable_sort", "swap", "reverse", "fill", "iota", "shuffle", "random_shuffle", "rotate",
                  "unique", "partition", "stable_partition", "nth_element", "partial_sort", "fill_n", "generate",
                  "transform", "copy", "copy_n", "move_backward", "copy_backward", "replace", "remove", "remove_if",
                  "iter_swap", "swap_ranges", "exchange", "getline", "push_heap", "pop_heap", "make_heap",
                  "sort_heap", "inplace_merge", "next_permutation", "prev_permutation", "partial_sum",
                  "adjacent_difference", "ref", "get_rectangles"}
PASS_THROUGH = {"move", "forward", "addressof", "as_const", "get"}


def split_params(ftype):
    """Parameter type strings of a function type 'R (A, B, ...) quals'."""
    # find the parameter list: the last top-level (...) group
    depth = 0
    end = None
    start = None
    for i in range(len(ftype) - 1, -1, -1):
        c = ftype[i]
        if c == ")":
            if depth == 0 and end is None:
                end = i
            depth += 1
        elif c == "(":
            depth -= 1
            if depth == 0 and end is not None:
                start = i
                break
    if start is None:
        return []
    s = ftype[start + 1:end]
    out, cur, d = [], "", 0
    for c in s:
        if c in "<([":
            d += 1
        elif c in ">)]":
            d -= 1
        if c == "," and d == 0:
            out.append(cur.strip())
            cur = ""
        else:
            cur += c
    if cur.strip():
        out.append(cur.strip())
    if out == ["void"]:
        return []
    return out


def is_const_type(t):
    t = t.strip()
    if t.startswith("const "):
        return True
    # 'T const' / 'const' before the reference
    core = t.rstrip("&* ").strip()
    return core.endswith(" const") or core.startswith("const ")


def param_mode(t):
    """'value' | 'constref' | 'mutref' | 'rref' | 'ptr' | 'constptr' for a parameter type string."""
    t = t.strip()
    if t.endswith("&&"):
        return "rref"
    if t.endswith("&"):
        return "constref" if is_const_type(t[:-1]) else "mutref"
    if t.endswith("*"):
        return "constptr" if is_const_type(t[:-1]) else "ptr"
    return "value"


class Use:
    __slots__ = ("kind", "node", "why", "via")

    def __init__(self, kind_, node, why, via=None):
        self.kind = kind_
        self.node = node
        self.why = why
        self.via = via   # Func key when the write happens inside a callee

    def __repr__(self):
        return "<%s %s %s>" % (self.kind, self.why, loc_str(self.node))


class Effects:
    def __init__(self, prog):
        self.prog = prog
        self._param_memo = {}
        self._var_refs = {}      # id(func) -> {var id: [DeclRefExpr]}
        self._summary = {}
        self._trans = None
        self.cycles = []

    # ---- helpers ------------------------------------------------------
    def func_of_node(self, n):
        """Innermost Func (lambda or function) whose body contains node n."""
        x = n
        while x is not None:
            if x.get("kind") == "LambdaExpr" and x.get("_lam") is not None and x is not n:
                return x["_lam"]
            f = x.get("_func")
            if f is not None:
                return f
            x = x.get("_p")
        return None

    def var_refs(self, func, var_id):
        key = id(func)
        if key not in self._var_refs:
            m = {}
            roots = [func.body] + [c for c in func.ctor_inits]
            for r in roots:
                for x in walk(r):
                    if x.get("kind") == "DeclRefExpr":
                        rd = x.get("referencedDecl") or {}
                        m.setdefault(rd.get("id"), []).append(x)
            self._var_refs[key] = m
        return self._var_refs[key].get(var_id, [])

    def resolve_callee(self, call):
        """Func objects a call may invoke (library functions with bodies)."""
        ci = callee_info(call)
        if ci is None:
            return ci, []
        d = ci.get("decl")
        fs = []
        if d is not None:
            mn = d.get("mangledName")
            if mn and mn in self.prog.funcs:
                fs = [self.prog.funcs[mn]]
            else:
                fs = [f for f in self.prog.funcs_by_q.get(d.get("_q", ""), []) if f.type == qt(d)] or \
                     list(self.prog.funcs_by_q.get(d.get("_q", ""), []))
        elif call.get("kind") == "CallExpr" and ci.get("callee_expr") is not None and (ci["callee_expr"].get("referencedDecl") or {}).get("kind") == "FunctionDecl":
            # a free function dumped by a separate front-end run (file-local helper of a global-namespace unit): node ids differ
            # between runs, so it is matched by unit, name and type
            rd = ci["callee_expr"]["referencedDecl"]
            u = call.get("_u")
            fs = [f for f in self.prog.funcs.values() if f.unit is u and f.kind == "FunctionDecl" and f.name == rd.get("name")
                  and f.type == (rd.get("type") or {}).get("qualType")]
        if d is not None and not fs and d.get("kind") in ("CXXMethodDecl", "FunctionDecl") and "inner" not in d:
            # an instantiation of a member / function template defined out of line: the call names a body-less declaration of the
            # specialisation (no mangled name, context lost); the instantiated definition is indexed under the template
            nm, ty = d.get("name"), qt(d)
            byname = getattr(self, "_by_name", None)
            if byname is None:
                byname = self._by_name = {}
                for f in self.prog.funcs.values():
                    byname.setdefault(f.name, []).append(f)
            cands = [f for f in byname.get(nm, []) if f.type == ty and f.body is not None]
            if len(cands) == 1:
                fs = cands
        if fs:
            pass
        elif ci.get("ctor_type"):
            t = ci["ctor_type"]
            cname = t.split("::")[-1]
            cands = self.prog.funcs_by_q.get(t + "::" + cname, [])
            ct = (call.get("ctorType") or {}).get("qualType")
            fs = [f for f in cands if f.type == ct] or []
        return ci, fs

    # ---- the classifier ------------------------------------------------
    def uses(self, e, func, aliasing=False, depth=0, seen=None):
        """Classify how the storage designated by lvalue occurrence e (or, when
        aliasing=True, the storage that the *value* of e points/refers into) is used.
        Returns a list of Use."""
        if seen is None:
            seen = set()
        if depth > 60:
            return [Use(ESCAPE, e, "classification too deep")]
        p = e.get("_p")
        if p is None:
            return [Use(READ, e, "no parent")]
        k = p.get("kind", "")
        rec = lambda x, al=aliasing: self.uses(x, func, al, depth + 1, seen)
        if k in ("ParenExpr", "ExprWithCleanups", "MaterializeTemporaryExpr", "CXXBindTemporaryExpr", "ConstantExpr",
                 "FullExpr"):
            return rec(p)
        if k == "ImplicitCastExpr":
            ck = p.get("castKind")
            if ck == "LValueToRValue":
                if aliasing:
                    return rec(p)      # value of a pointer/iterator variable read: still aliases
                return [Use(READ, p, "lvalue-to-rvalue")]
            if ck in ("NoOp", "DerivedToBase", "UncheckedDerivedToBase", "ConstructorConversion", "UserDefinedConversion"):
                t = qt(p)
                if is_const_type(t) or "const_iterator" in t or "__normal_iterator<const " in t:
                    return [Use(READ, p, "const view")]
                return rec(p)
            if ck in ("ArrayToPointerDecay",):
                return rec(p, True)
            if ck in ("FunctionToPointerDecay", "BuiltinFnToFnPtr"):
                return [Use(READ, p, "callee")]
            return [Use(READ, p, "value conversion " + str(ck))]
        if k in EXPLICIT_CASTS:
            t = qt(p)
            if t.endswith("&") and not is_const_type(t[:-1]):
                return rec(p)
            if k == "CXXConstCastExpr":
                return [Use(ESCAPE, p, "const_cast")]
            if aliasing and t.endswith("*") and not is_const_type(t[:-1]):
                return rec(p)
            return [Use(READ, p, "explicit cast to value")]
        if k == "MemberExpr":
            d = member_decl(p)
            if d is not None and d.get("kind") in ("FieldDecl", "IndirectFieldDecl"):
                return rec(p, False)
            if d is None and not qt(p).startswith("<bound"):
                # data member of an external class (pair::first, ...)
                return rec(p, False)
            # bound member function: p is the callee of a member call
            call = p.get("_p")
            while call is not None and call.get("kind") in TRANSPARENT:
                call = call.get("_p")
            name = p.get("name", "")
            objt = qt(e)
            if is_const_type(objt) and not p.get("isArrow"):
                return [Use(READ, p, "const object")]
            if d is not None:
                ft = qt(d)
                is_const_m = "const" in ft[ft.rfind(")"):]
                if is_const_m or d.get("storageClass") == "static":
                    # a const method returning a mutable reference to a member does not exist
                    # for const objects; safe to call it a read
                    return [Use(READ, p, "const method " + name)]
                fs = [f for f in self.prog.funcs_by_q.get(d.get("_q", ""), []) if f.type == ft] or \
                    list(self.prog.funcs_by_q.get(d.get("_q", ""), []))
                out = [Use(WRITE, call if call is not None else p, "non-const method " + d.get("_q", name),
                           via=[f.key for f in fs])]
                if ft.split("(")[0].strip().endswith("&") and call is not None:
                    out += self.uses(call, func, False, depth + 1, seen)
                return out
            # external (std) member
            if name in ALIAS_RETURNING or name.startswith("operator "):
                if name.startswith("operator ") and name not in ("operator*", "operator->", "operator[]"):
                    # conversion operator (vector<bool>::reference -> bool)
                    return [Use(READ, p, "conversion " + name)]
                if call is None:
                    return [Use(ESCAPE, p, "bound member without call")]
                return self.uses(call, func, True, depth + 1, seen)
            if name in MUTATING:
                return [Use(WRITE, call if call is not None else p, "std mutator " + name)]
            if name in ("size", "empty", "count", "capacity", "length", "c_str", "cbegin", "cend", "has_value",
                        "max_size", "info", "iterations", "error", "first", "second", "good", "fail", "eof",
                        "is_open", "rdbuf"):
                return [Use(READ, p, "std observer " + name)]
            return [Use(ESCAPE, call if call is not None else p, "unknown external non-const member " + name)]
        if k == "CXXOperatorCallExpr":
            ci = callee_info(p)
            name = ci["name"]
            args = [ci["obj"]] + list(ci["args"])
            idx = None
            for i, a in enumerate(args):
                if a is e:
                    idx = i
            if idx is None:
                return [Use(READ, p, "operator callee")]
            if name in ("operator[]", "operator*", "operator->") and idx == 0:
                return self.uses(p, func, aliasing if name != "operator[]" else False, depth + 1, seen) \
                    if not aliasing else self.uses(p, func, False, depth + 1, seen)
            if aliasing:
                # e is an iterator/pointer value: ++it, it != end, it = ... do not touch the pointee
                if name in ("operator+", "operator-") and idx == 0:
                    return self.uses(p, func, True, depth + 1, seen)
                return [Use(READ, p, "iterator arithmetic/comparison " + name)]
            if name in ("operator=", "operator+=", "operator-=", "operator*=", "operator/=", "operator++", "operator--",
                        "operator|=", "operator&=", "operator^=", "operator<<=", "operator>>="):
                if idx == 0:
                    return [Use(WRITE, p, name)]
                return [Use(READ, p, "operand of " + name)]
            if name in ("operator<<", "operator>>"):
                if idx == 0:
                    t = qt(e)
                    if "ostream" in t or "stringstream" in t or "istream" in t or "fstream" in t or "ostringstream" in t:
                        return [Use(WRITE, p, "stream " + name)]
                    return [Use(READ, p, "shift lhs")]
                if name == "operator>>":
                    return [Use(WRITE, p, "extraction target")]
                return [Use(READ, p, "streamed value")]
            if name == "operator()":
                if idx == 0:
                    t = qt(e)
                    if "mt19937" in t or "mersenne" in t or "distribution" in t or "linear_congruential" in t:
                        return [Use(WRITE, p, "random engine/distribution invocation")]
                    return [Use(READ, p, "callable invoked")]
                # argument of a callable: by non-const ref only if no cast in between
                t = qt(e)
                if "mt19937" in t or "mersenne" in t or "linear_congruential" in t or "random_engine" in t:
                    return [Use(WRITE, p, "random engine consumed by a distribution")]
                return [Use(ESCAPE, p, "lvalue argument to callable")]
            if name in ("operator==", "operator!=", "operator<", "operator>", "operator<=", "operator>=", "operator+",
                        "operator-", "operator!", "operator&&", "operator||", "operator/", "operator%", "operator~",
                        "operator&", "operator|", "operator^"):
                return [Use(READ, p, "operand of " + name)]
            return [Use(ESCAPE, p, "operand of unknown operator " + name)]
        if k in ("CallExpr", "CXXMemberCallExpr", "CXXConstructExpr", "CXXTemporaryObjectExpr"):
            return self._arg_use(e, p, func, aliasing, depth, seen)
        if k == "BinaryOperator":
            op = p.get("opcode")
            ch = children(p)
            if op == "=":
                if ch and ch[0] is e:
                    if aliasing:
                        return [Use(READ, p, "pointer/iterator variable reassigned")]
                    return [Use(WRITE, p, "assignment")]
                return self.uses(p, func, aliasing, depth + 1, seen) if aliasing else [Use(READ, p, "assigned from")]
            if op == ",":
                if ch and ch[-1] is e:
                    return rec(p)
                return [Use(READ, p, "discarded")]
            if aliasing and op in ("+", "-") :
                return rec(p)
            return [Use(READ, p, "operand of " + str(op))]
        if k == "CompoundAssignOperator":
            ch = children(p)
            if ch and ch[0] is e and not aliasing:
                return [Use(WRITE, p, "compound assignment " + str(p.get("opcode")))]
            return [Use(READ, p, "operand of compound assignment")]
        if k == "UnaryOperator":
            op = p.get("opcode")
            if op in ("++", "--"):
                if aliasing:
                    return [Use(READ, p, "pointer/iterator stepped")]
                return [Use(WRITE, p, "increment/decrement")]
            if op == "&":
                return self.uses(p, func, True, depth + 1, seen)
            if op == "*":
                return self.uses(p, func, False, depth + 1, seen)
            if op in ("__extension__",):
                return rec(p)
            return [Use(READ, p, "operand of " + str(op))]
        if k == "ArraySubscriptExpr":
            ch = children(p)
            if ch and ch[0] is e:
                return self.uses(p, func, False, depth + 1, seen)
            return [Use(READ, p, "subscript index")]
        if k in ("VarDecl", "BindingDecl", "DecompositionDecl"):
            t = qt(p)
            mode = param_mode(t)
            if t.startswith("auto") or "auto " in t:
                mode = param_mode(t)
            binds_ref = mode in ("mutref", "rref")
            if "_Bit_reference" in t or "_Bit_reference" in (p.get("type") or {}).get("desugaredQualType", ""):
                # vector<bool> proxy held in a variable: the variable *is* the element
                binds_ref, aliasing, mode = True, False, "mutref"
            if (binds_ref and not aliasing) or (aliasing and mode in ("value", "mutref", "rref", "ptr")):
                if mode == "value" and aliasing:
                    tt = t
                    if is_const_type(tt) and "*" not in tt:
                        pass
                key = (p.get("id"), aliasing)
                if key in seen:
                    return []
                seen.add(key)
                out = []
                vfunc = func
                vfunc = func.outer
                refs = list(self.var_refs(vfunc, p.get("id")))
                if p.get("kind") == "DecompositionDecl":
                    for b in inner(p):
                        if b.get("kind") == "BindingDecl":
                            refs = refs + self.var_refs(vfunc, b.get("id"))
                for r in refs:
                    # a by-value aliasing variable (iterator/pointer) aliases through its value;
                    # a reference variable *is* the storage
                    out += self.uses(r, self.func_of_node(r) or func, aliasing and mode in ("value", "ptr"), depth + 1, seen)
                return out or [Use(READ, p, "bound to unused reference")]
            if mode == "constref" or mode == "constptr":
                return [Use(READ, p, "bound to const reference")]
            return [Use(READ, p, "copied into variable")]
        if k == "ReturnStmt":
            f = self.func_of_node(p) or func
            rt = f.type.split("(")[0].strip() if f is not None else ""
            if f is not None and f.lam_parent is not None:
                rt = qt(f.decl).split("(")[0].strip()
            m = param_mode(rt)
            if m in ("mutref", "ptr", "rref") or (aliasing and ("iterator" in rt and "const_iterator" not in rt)):
                return [Use(ESCAPE, p, "returned by mutable reference/pointer")]
            if aliasing and m == "value" and rt in ("auto", "decltype(auto)"):
                return [Use(ESCAPE, p, "returned alias (deduced type)")]
            return [Use(READ, p, "returned by value/const")]
        if k == "ConditionalOperator":
            ch = children(p)
            if ch and ch[0] is e:
                return [Use(READ, p, "condition")]
            return rec(p)
        if k in ("InitListExpr", "CXXStdInitializerListExpr", "CXXThrowExpr", "CXXNewExpr", "CXXDeleteExpr",
                 "UnaryExprOrTypeTraitExpr", "CXXTypeidExpr", "CXXNoexceptExpr"):
            return [Use(READ, p, k)]
        if k in ("IfStmt", "WhileStmt", "ForStmt", "DoStmt", "SwitchStmt", "CompoundStmt", "CaseStmt", "DefaultStmt",
                 "CXXForRangeStmt", "DeclStmt", "CXXCatchStmt", "CXXTryStmt", "LabelStmt", "AttributedStmt",
                 "CXXCtorInitializer", "ParmVarDecl", "FieldDecl") or k in ("FunctionDecl", "CXXMethodDecl",
                                                                            "CXXConstructorDecl"):
            return [Use(READ, p, "statement-level / discarded")]
        if k == "LambdaExpr":
            # capture initialiser
            return [Use(READ, p, "lambda capture (by-reference captures are analysed in the lambda body)")]
        if k == "CXXDefaultArgExpr" or k == "CXXDefaultInitExpr":
            return [Use(READ, p, k)]
        return [Use(ESCAPE, p, "unrecognised context " + k)]

    def _arg_use(self, e, call, func, aliasing, depth, seen):
        """e is a direct child of a call-like node: either callee expression or an
        argument that clang bound without const-qualification."""
        ci, fs = self.resolve_callee(call)
        k = call.get("kind")
        ch = children(call)
        if k in ("CallExpr", "CXXMemberCallExpr") and ch and ch[0] is e:
            return [Use(READ, call, "callee expression")]
        args = ci["args"]
        idx = None
        for i, a in enumerate(args):
            if a is e:
                idx = i
        if idx is None:
            return [Use(ESCAPE, call, "argument position not found")]
        name = ci["name"]
        # library callee with body: use its parameter summary
        if fs:
            out = []
            for f in fs:
                if idx < len(f.params):
                    pm = param_mode(qt(f.params[idx]))
                    if pm in ("value",) and not aliasing:
                        out.append(Use(READ, call, "by-value parameter of " + f.short))
                    elif pm in ("constref", "constptr"):
                        out.append(Use(READ, call, "const parameter of " + f.short))
                    else:
                        w = self.param_written(f, idx)
                        if w:
                            out.append(Use(WRITE if w == WRITE else ESCAPE, call,
                                           "parameter %d of %s is %s" % (idx, f.short, "written" if w == WRITE else "escaping"),
                                           via=[f.key]))
                        else:
                            out.append(Use(READ, call, "parameter %d of %s is only read" % (idx, f.short)))
                else:
                    out.append(Use(ESCAPE, call, "variadic position in " + f.short))
            return out
        # declared-only library function, or external
        ptypes = None
        d = ci.get("decl")
        if d is not None:
            ptypes = split_params(qt(d))
        elif ci.get("callee_expr") is not None and ci["callee_expr"].get("kind") == "DeclRefExpr":
            rd = ci["callee_expr"].get("referencedDecl") or {}
            ptypes = split_params((rd.get("type") or {}).get("qualType", ""))
        elif k in ("CXXConstructExpr", "CXXTemporaryObjectExpr"):
            ptypes = split_params((call.get("ctorType") or {}).get("qualType", ""))
        if name in PASS_THROUGH and not ci["is_member"]:
            return self.uses(call, func, aliasing, depth + 1, seen)
        if name == "async" and not ci["is_member"]:
            # std::async decay-copies its arguments; only a pointer argument exposes storage to the thread
            if not aliasing:
                return [Use(READ, call, "decay-copied by std::async")]
            m = async_callee(call)
            if m is not None and m.get("kind") == "CXXMethodDecl":
                ft = qt(m)
                if "const" in ft[ft.rfind(")"):]:
                    return [Use(READ, call, "object of const member function run by std::async")]
                return [Use(WRITE, call, "object of non-const member function run by std::async")]
            return [Use(ESCAPE, call, "pointer handed to a thread (std::async)")]
        if ptypes is not None and idx < len(ptypes):
            pm = param_mode(ptypes[idx])
            if pm in ("constref", "constptr"):
                return [Use(READ, call, "const parameter of " + name)]
            if pm == "value" and not aliasing:
                return [Use(READ, call, "by-value parameter of " + name)]
            if name in READONLY_ALGOS:
                return [Use(READ, call, "read-only algorithm " + name)]
            if name in MUTATING_ALGOS:
                return [Use(WRITE, call, "mutating algorithm " + name)]
            if k in ("CXXConstructExpr", "CXXTemporaryObjectExpr"):
                t = ci.get("ctor_type", "")
                if pm == "rref":
                    return [Use(WRITE, call, "moved-from")]
                if t.startswith("std::") or t.startswith("Eigen::") or t.startswith("boost::"):
                    if "reference_wrapper" in t:
                        return [Use(ESCAPE, call, "reference_wrapper")]
                    return [Use(READ, call, "copied into std object " + t[:40])]
                return [Use(ESCAPE, call, "non-const reference parameter of constructor " + t)]
            if d is not None and pm in ("mutref", "ptr", "rref"):
                return [Use(ESCAPE, call, "non-const parameter of body-less library function " + name)]
            return [Use(ESCAPE, call, "non-const parameter of external function " + name)]
        if ci["is_member"] and ci["external"]:
            if name in ARGS_READ_ONLY:
                return [Use(READ, call, "argument copied by std member " + name)]
            return [Use(ESCAPE, call, "argument of unknown external member " + name)]
        if name in READONLY_ALGOS:
            return [Use(READ, call, "read-only algorithm " + name)]
        if name in MUTATING_ALGOS:
            return [Use(WRITE, call, "mutating algorithm " + name)]
        return [Use(ESCAPE, call, "argument of unresolved call " + name)]

    def param_written(self, f, idx):
        """Does library function f modify (or leak) the object bound to its idx-th
        parameter? Returns None, WRITE or ESCAPE."""
        key = (f.key, idx)
        if key in self._param_memo:
            v = self._param_memo[key]
            if v == "inprogress":
                self.cycles.append(key)
                return None
            return v
        self._param_memo[key] = "inprogress"
        p = f.params[idx]
        res = None
        refs = list(self.var_refs(f, p.get("id")))
        is_ptr = param_mode(qt(p)) in ("ptr",)
        for r in refs:
            for u in self.uses(r, self.func_of_node(r) or f, is_ptr):
                if u.kind == WRITE:
                    res = WRITE
                elif u.kind == ESCAPE and res is None:
                    res = ESCAPE
        self._param_memo[key] = res
        return res

    # ---- function summaries ---------------------------------------------
    def summary(self, f):
        """Direct effects of function f (lambdas included in their parent):
        {'writes': {field q: [Use]}, 'escapes': {...}, 'reads': {field q: [node]}, 'calls': [(call node, ci, [Func])]}"""
        key = id(f)
        if key in self._summary:
            return self._summary[key]
        s = {"writes": {}, "escapes": {}, "reads": {}, "calls": [], "var_writes": {}}
        self._summary[key] = s
        roots = [f.body] + list(f.ctor_inits)
        for r in roots:
            for x in walk(r):
                k = x.get("kind")
                if k == "MemberExpr":
                    d = member_decl(x)
                    if d is None or d.get("kind") != "FieldDecl":
                        continue
                    q = d.get("_q")
                    owner = self.func_of_node(x) or f
                    for u in self.uses(x, owner):
                        if u.kind == WRITE:
                            s["writes"].setdefault(q, []).append((x, u))
                        elif u.kind == ESCAPE:
                            s["escapes"].setdefault(q, []).append((x, u))
                        else:
                            s["reads"].setdefault(q, []).append((x, u))
                elif k in CALL_KINDS:
                    ci, fs = self.resolve_callee(x)
                    s["calls"].append((x, ci, fs))
                elif k == "CXXCtorInitializer":
                    pass
        for ci_ in f.ctor_inits:
            an = ci_.get("anyInit") or {}
            if an.get("kind") == "FieldDecl":
                d = f.unit.by_id.get(an.get("id"))
                q = d.get("_q") if d else (f.cls or "") + "::" + an.get("name", "")
                s["writes"].setdefault(q, []).append((ci_, Use(WRITE, ci_, "constructor initialiser")))
        return s

    def callees(self, f):
        out = []
        for call, ci, fs in self.summary(f)["calls"]:
            for g in fs:
                out.append((call, g))
        return out

    def transitive(self):
        """{func key: {'writes': set(field q), 'calls': set(func key)}} closed over the call graph."""
        if self._trans is not None:
            return self._trans
        funcs = [f for f in self.prog.funcs.values()]
        direct = {}
        edges = {}
        for f in funcs:
            s = self.summary(f)
            direct[f.key] = set(s["writes"]) | set(s["escapes"])
            edges[f.key] = {g.key for _c, g in self.callees(f)}
        trans_w = {k: set(v) for k, v in direct.items()}
        trans_c = {k: set(v) for k, v in edges.items()}
        trans_r = {f.key: set(self.summary(f)["reads"]) for f in funcs}
        changed = True
        while changed:
            changed = False
            for k in trans_w:
                for c in list(trans_c[k]):
                    nw = trans_w.get(c, set()) - trans_w[k]
                    if nw:
                        trans_w[k] |= nw
                        changed = True
                    nr = trans_r.get(c, set()) - trans_r[k]
                    if nr:
                        trans_r[k] |= nr
                        changed = True
                    nc = trans_c.get(c, set()) - trans_c[k]
                    if nc:
                        trans_c[k] |= nc
                        changed = True
        self._trans = {k: {"writes": trans_w[k], "calls": trans_c[k], "reads": trans_r[k]} for k in trans_w}
        return self._trans


def async_callee(call):
    """For a call to std::async: the member function declaration named by a `&C::m` argument, a LambdaExpr
    node, or None."""
    ci = callee_info(call)
    for a in ci["args"]:
        x = strip(a, casts=True)
        if x.get("kind") == "UnaryOperator" and x.get("opcode") == "&":
            y = strip(children(x)[0])
            if y.get("kind") == "DeclRefExpr":
                d = ref_decl(y)
                if d is not None and d.get("kind") in ("CXXMethodDecl", "FunctionDecl"):
                    return d
        if x.get("kind") == "LambdaExpr":
            return x
        if x.get("kind") == "DeclRefExpr":
            d = ref_decl(x)
            if d is not None and d.get("kind") == "FunctionDecl":
                return d
            if d is not None and d.get("kind") == "VarDecl":
                init = children(d)
                if init and strip(init[-1], casts=True).get("kind") == "LambdaExpr":
                    return strip(init[-1], casts=True)
    return None


def _all_lambdas(f):
    out = []
    stack = list(f.lambdas)
    while stack:
        l = stack.pop()
        out.append(l)
        stack.extend(l.lambdas)
    return out
