"""Program model built from the filtered clang JSON ASTs.

Nodes stay plain dicts (as decoded from clang's JSON) with a few private keys
added: '_p' parent node, '_u' unit, '_q' qualified name (declarations).
Cross-unit identity is by qualified name / mangled name, never by clang's
per-process pointer ids.
"""
import os
from . import frontend
from .frontend import AnalysisBroken

DECL_CTX = ("NamespaceDecl", "CXXRecordDecl", "ClassTemplateDecl", "ClassTemplateSpecializationDecl",
            "EnumDecl", "FunctionDecl", "CXXMethodDecl", "CXXConstructorDecl", "CXXDestructorDecl",
            "FunctionTemplateDecl", "LinkageSpecDecl", "CXXConversionDecl")
FUNC_KINDS = ("FunctionDecl", "CXXMethodDecl", "CXXConstructorDecl", "CXXDestructorDecl",
              "CXXConversionDecl")


def inner(n):
    return n.get("inner", ()) if n else ()


def kind(n):
    return n.get("kind") if isinstance(n, dict) else None


def qt(n):
    t = n.get("type") if n else None
    return t.get("qualType", "") if t else ""


def desugared(n):
    t = n.get("type") if n else None
    if not t:
        return ""
    return t.get("desugaredQualType") or t.get("qualType", "")


def loc_of(n):
    """(file, line) of a node, looking through macro expansion locations."""
    for key in ("loc", "range"):
        d = n.get(key)
        if not d:
            continue
        if key == "range":
            d = d.get("begin", {})
        if "expansionLoc" in d:
            d = d["expansionLoc"]
        if d.get("file") is not None and d.get("line") is not None:
            return d["file"], d["line"]
    p = n.get("_p")
    if p is not None:
        return loc_of(p)
    return None, None


def loc_str(n):
    f, l = loc_of(n)
    if f is None:
        return "?"
    if f.startswith(frontend.REPO + "/"):
        f = f[len(frontend.REPO) + 1:]
    return "%s:%s" % (f, l)


def spelling_line_range(n):
    r = n.get("range", {})
    b, e = r.get("begin", {}), r.get("end", {})
    if "expansionLoc" in b:
        b = b["expansionLoc"]
    if "expansionLoc" in e:
        e = e["expansionLoc"]
    return b.get("line"), e.get("line")


def walk(n):
    """Pre-order traversal of a node and all descendants."""
    stack = [n]
    while stack:
        x = stack.pop()
        if not isinstance(x, dict):
            continue
        yield x
        ch = x.get("inner")
        if ch:
            if x.get("kind") == "LambdaExpr":
                ch = [c for c in ch if isinstance(c, dict) and c.get("kind") != "CXXRecordDecl"]
            stack.extend(reversed(ch))


def walk_no_lambda(n):
    """Pre-order traversal that does not descend into lambda bodies (a LambdaExpr
    node itself is yielded) nor into nested function/record declarations."""
    stack = [n]
    first = True
    while stack:
        x = stack.pop()
        if not isinstance(x, dict):
            continue
        yield x
        if not first and x.get("kind") in ("LambdaExpr",):
            continue
        first = False
        ch = x.get("inner")
        if ch:
            stack.extend(reversed(ch))


class Func:
    def __init__(self, prog, unit, decl, qname, cls, body, lam_parent=None):
        self.prog = prog
        self.unit = unit
        self.decl = decl
        self.qname = qname
        self.cls = cls            # qualified name of the class, or None
        self.body = body          # CompoundStmt (or None)
        self.lam_parent = lam_parent
        self.kind = decl.get("kind")
        self.name = decl.get("name", "")
        self.mangled = decl.get("mangledName")
        self.type = qt(decl)
        self.params = [c for c in inner(decl) if c.get("kind") == "ParmVarDecl"]
        self.ctor_inits = [c for c in inner(decl) if c.get("kind") == "CXXCtorInitializer"]
        self.lambdas = []
        self._cfg = None
        if body is not None:
            body["_func"] = self
        for c in self.ctor_inits:
            c["_func"] = self

    @property
    def outer(self):
        f = self
        while f.lam_parent is not None:
            f = f.lam_parent
        return f

    @property
    def is_const(self):
        t = self.type
        i = t.rfind(")")
        return i >= 0 and "const" in t[i:]

    @property
    def is_static(self):
        return self.decl.get("storageClass") == "static" or self.prog.static_methods.get(self.key, False)

    @property
    def key(self):
        return self.mangled or (self.qname + "|" + self.type)

    @property
    def short(self):
        q = self.qname
        return q[len("coloquinte::"):] if q.startswith("coloquinte::") else q

    def loc(self):
        return loc_str(self.decl)

    def __repr__(self):
        return "<Func %s>" % self.qname


class Unit:
    def __init__(self, name, path):
        self.name = name
        self.path = path
        self.objs = frontend.load_dump(path)
        self.by_id = {}
        self.main_file = frontend.repo_path(name)


class Program:
    """All analysed units together."""

    @classmethod
    def from_files(cls, paths, flt="coloquinte", extra_flags=()):
        """A small stand-alone program (self-test positive controls, pybind stub build)."""
        self = cls.__new__(cls)
        self.log = lambda *a: None
        self.unbuilt_on_disk = []
        self.unit_names = [os.path.basename(p) for p in paths]
        self.info = {"flags": [], "flags_origin": "selftest", "tree_hash": "", "dump_wall_s": 0}
        self.units = []
        for p in paths:
            u = Unit.__new__(Unit)
            u.name = os.path.basename(p)
            u.path = frontend.dump_file(p, flt, extra_flags)
            u.objs = frontend.load_dump(u.path)
            u.by_id = {}
            u.main_file = p
            self.units.append(u)
        self._init_tables()
        for u in self.units:
            self._index_unit(u)
        self.aliases = {}
        self._link_methods()
        return self

    def _init_tables(self):
        self.funcs = {}
        self.funcs_by_q = {}
        self.decl_only = {}
        self.records = {}
        self.enums = {}
        self.static_methods = {}
        self.globals = []
        self.all_lambdas = []
        self._seen_decl_pos = set()

    def __init__(self, unit_names=None, log=None):
        self.log = log or (lambda *a: None)
        built = frontend.cmake_sources()
        disk = frontend.disk_sources()
        self.unbuilt_on_disk = [d for d in disk if d not in built]
        for b in built:
            if not os.path.exists(frontend.repo_path(b)):
                raise AnalysisBroken("unit %s listed in CMakeLists.txt does not exist" % b)
        names = list(built) if unit_names is None else [u for u in built if u in unit_names]
        if unit_names is not None:
            missing = [u for u in unit_names if u not in built]
            if missing:
                raise AnalysisBroken("anchored unit(s) no longer built: %s" % missing)
        self.unit_names = names
        paths, self.info = frontend.dump_units(names)
        self.units = [Unit(n, paths[n]) for n in names]
        self._init_tables()
        for u in self.units:
            self._index_unit(u)
        self._apply_aliases()
        self._link_methods()

    # ---- rename resolution ------------------------------------------------
    def class_layout(self, cls_q):
        """(fields, methods) of a class in declaration order: [(name, type string)]; constructors, destructors, operators and
        implicit members are left out."""
        r = self.records.get(cls_q)
        if not r:
            return [], []
        fields, methods = [], []
        for c in inner(r["decl"]):
            k = c.get("kind")
            if k == "FieldDecl":
                fields.append((c.get("name"), qt(c)))
            elif k == "CXXMethodDecl" and not c.get("isImplicit") and not (c.get("name") or "").startswith("operator"):
                methods.append((c.get("name"), qt(c)))
        return fields, methods

    @staticmethod
    def _match_renames(expected, actual):
        """expected / actual: [(name, type)] in declaration order. Returns {actual name: expected name} for declarations that were
        renamed: same position and type when the counts agree, otherwise the unique unexpected declaration of the same type."""
        en = {n for n, _t in expected}
        an = {n for n, _t in actual}
        missing = [(n, t) for n, t in expected if n not in an]
        extra = [(n, t) for n, t in actual if n not in en]
        out = {}
        if not missing or not extra:
            return out
        if len(expected) == len(actual):
            for (e, et), (a, at) in zip(expected, actual):
                if e != a and e not in an and a not in en and et == at:
                    out[a] = e
        for m, mt in missing:
            if m in out.values():
                continue
            cands = [a for a, at in extra if at == mt and a not in out]
            same = [x for x, xt in missing if xt == mt and x not in out.values()]
            if len(cands) == 1 and len(same) == 1:
                out[cands[0]] = m
        return out

    def _schema_classes(self):
        sc = getattr(self, "_schema_cls", None)
        if sc is None:
            path = os.path.join(frontend.VERIF, "rules", "decl_schema.json")
            try:
                import json as _json
                sc = set(_json.load(open(path)).keys())
            except (OSError, ValueError):
                sc = set()
            self._schema_cls = sc
        return sc

    def _apply_aliases(self):
        """Resolve pure renames of data members and methods against the frozen declaration schema (rules/decl_schema.json,
        generated from the tree the rules were written for): the renamed declaration keeps answering to the name the rules
        know. Recorded in self.aliases for the evidence."""
        self.aliases = {}
        path = os.path.join(frontend.VERIF, "rules", "decl_schema.json")
        if not os.path.exists(path) or os.environ.get("CQVERIF_NO_ALIASES"):
            return
        import json as _json
        schema = _json.load(open(path))
        for cls_q, sch in schema.items():
            if cls_q not in self.records:
                continue
            af, am = self.class_layout(cls_q)
            fmap = self._match_renames([tuple(x) for x in sch.get("fields", [])], af)
            mmap = self._match_renames([tuple(x) for x in sch.get("methods", [])], am)
            if not fmap and not mmap:
                continue
            self.aliases[cls_q] = {"fields": fmap, "methods": mmap}
            rec = self.records[cls_q]
            for a, e in fmap.items():
                if a in rec["fields"]:
                    rec["fields"][e] = rec["fields"].pop(a)
            for u in self.units:
                for d in u.by_id.values():
                    if d.get("_ctx") != cls_q:
                        continue
                    k = d.get("kind")
                    nm = d.get("name")
                    if k == "FieldDecl" and nm in fmap:
                        d["_q"] = cls_q + "::" + fmap[nm]
                        d["_alias"] = fmap[nm]
                    elif k == "CXXMethodDecl" and nm in mmap:
                        d["_q"] = cls_q + "::" + mmap[nm]
                        d["_alias"] = mmap[nm]
            for f in list(self.funcs.values()):
                if f.cls == cls_q and f.kind == "CXXMethodDecl" and f.name in mmap:
                    old = f.qname
                    f.qname = cls_q + "::" + mmap[f.name]
                    f.name = mmap[f.name]
                    if old in self.funcs_by_q and f in self.funcs_by_q[old]:
                        self.funcs_by_q[old].remove(f)
                    self.funcs_by_q.setdefault(f.qname, []).append(f)
            for old_q in [q for q in list(self.decl_only) if q.startswith(cls_q + "::") and q.split("::")[-1] in mmap]:
                self.decl_only.setdefault(cls_q + "::" + mmap[old_q.split("::")[-1]], []).extend(self.decl_only.pop(old_q))

    # ---- indexing -----------------------------------------------------
    def _index_unit(self, u):
        for top in u.objs:
            self._index_decl(u, top, None, top.get("_prefix", ""))

    def _qname_of_ctx(self, u, d):
        return d.get("_q", "")

    def _index_decl(self, u, d, parent, prefix):
        # iterative DFS over declarations; statements are annotated lazily
        stack = [(d, parent, prefix)]
        while stack:
            d, parent, prefix = stack.pop()
            if not isinstance(d, dict):
                continue
            d["_p"] = parent
            d["_u"] = u
            k = d.get("kind", "")
            if "id" in d and k.endswith("Decl"):
                u.by_id[d["id"]] = d
            if not k.endswith("Decl") and k not in ("CXXCtorInitializer",):
                # statement / expression: annotate whole subtree with parents
                self._annotate_stmt(u, d, parent)
                continue
            name = d.get("name", "")
            q = prefix
            if k in ("NamespaceDecl",):
                q = (prefix + "::" if prefix else "") + (name if name else "(anonymous namespace)")
            elif k in ("CXXRecordDecl", "EnumDecl", "ClassTemplateSpecializationDecl"):
                q = (prefix + "::" if prefix else "") + (name or "<anon>")
                # a library class moved into an anonymous namespace (file-local class of one .cpp) keeps the name the rules know
                if "(anonymous namespace)::" in q and q.replace("(anonymous namespace)::", "") in self._schema_classes():
                    q = q.replace("(anonymous namespace)::", "")
            elif k in FUNC_KINDS or k in ("FieldDecl", "VarDecl", "EnumConstantDecl", "TypeAliasDecl",
                                          "TypedefDecl", "ParmVarDecl"):
                ctx = prefix
                pid = d.get("parentDeclContextId")
                if pid and pid in u.by_id:
                    ctx = u.by_id[pid].get("_q", prefix)
                q = (ctx + "::" if ctx else "") + name
                d["_ctx"] = ctx
            d["_q"] = q
            if k == "CXXRecordDecl" and d.get("completeDefinition"):
                rec = self.records.setdefault(q, {"fields": {}, "decl": d, "methods": {}, "bases": []})
                for c in inner(d):
                    if c.get("kind") == "FieldDecl":
                        rec["fields"].setdefault(c.get("name"), c)
                for b in d.get("bases", []) or []:
                    rec["bases"].append(b.get("type", {}).get("qualType", ""))
            if k == "EnumDecl":
                self.enums.setdefault(q, [c.get("name") for c in inner(d) if c.get("kind") == "EnumConstantDecl"])
            if k == "VarDecl" and (parent is None or parent.get("kind") in ("NamespaceDecl", "CXXRecordDecl", "TranslationUnitDecl")):
                self.globals.append((u, d))
            if k in FUNC_KINDS:
                self._index_func(u, d, q)
            for c in reversed(list(inner(d))):
                if k in FUNC_KINDS:
                    # parameters / body handled here
                    ck = c.get("kind", "")
                    if ck == "ParmVarDecl":
                        c["_p"] = d
                        c["_u"] = u
                        c["_q"] = q + "::" + c.get("name", "")
                        u.by_id[c["id"]] = c
                        # default arguments
                        for cc in inner(c):
                            self._annotate_stmt(u, cc, c)
                    elif ck == "CXXCtorInitializer":
                        c["_p"] = d
                        c["_u"] = u
                        for cc in inner(c):
                            self._annotate_stmt(u, cc, c)
                    elif ck.endswith("Decl"):
                        stack.append((c, d, q))
                    else:
                        self._annotate_stmt(u, c, d)
                else:
                    stack.append((c, d, q))

    def _annotate_stmt(self, u, n, parent):
        stack = [(n, parent)]
        by_id = u.by_id
        while stack:
            x, p = stack.pop()
            if not isinstance(x, dict):
                continue
            x["_p"] = p
            x["_u"] = u
            k = x.get("kind", "")
            if k.endswith("Decl") and "id" in x:
                # a lambda's body is dumped twice (directly and under the closure type's operator());
                # the directly attached copy is visited first and must win
                if x["id"] not in by_id:
                    by_id[x["id"]] = x
                if "_q" not in x:
                    x["_q"] = x.get("name", "")
            if k == "CXXForRangeStmt":
                ch = list(inner(x))
                if len(ch) >= 8:
                    try:
                        rinit = [c for c in inner(inner(ch[1])[0]) if isinstance(c, dict) and c.get("kind")][-1]
                        var = inner(ch[6])[0]
                        var["_rangevar"] = rinit
                        var["_rangestmt"] = x
                    except (IndexError, KeyError, TypeError):
                        pass
            for c in inner(x):
                stack.append((c, x))

    def _index_func(self, u, d, q):
        body = None
        for c in inner(d):
            if c.get("kind") in ("CompoundStmt", "CXXTryStmt"):
                body = c
        cls = None
        ctx = d.get("_ctx", "")
        if d.get("kind") != "FunctionDecl" and ctx:
            cls = ctx
        if d.get("storageClass") == "static" and d.get("kind") == "CXXMethodDecl":
            self.static_methods[d.get("mangledName") or q] = True
        if body is None:
            self.decl_only.setdefault(q, []).append(d)
            return
        if d.get("isImplicit"):
            return
        f = Func(self, u, d, q, cls, body)
        if f.key in self.funcs:
            return  # same inline function seen through another unit
        self.funcs[f.key] = f
        self.funcs_by_q.setdefault(q, []).append(f)

    def _link_methods(self):
        # static-ness of out-of-line definitions comes from the in-class declaration
        for q, decls in self.decl_only.items():
            for d in decls:
                if d.get("storageClass") == "static":
                    self.static_methods[d.get("mangledName") or q] = True
        # lambdas
        for f in list(self.funcs.values()):
            self._collect_lambdas(f)

    def _collect_lambdas(self, f):
        n = 0
        for x in walk(f.body):
            if x.get("kind") == "LambdaExpr":
                body = None
                for c in inner(x):
                    if c.get("kind") == "CompoundStmt":
                        body = c
                rec = inner(x)[0] if inner(x) else None
                op = None
                if rec and rec.get("kind") == "CXXRecordDecl":
                    for c in inner(rec):
                        if c.get("kind") == "CXXMethodDecl" and c.get("name") == "operator()":
                            op = c
                if body is None or op is None:
                    continue
                n += 1
                # innermost enclosing: the one found first for f wins (outer funcs
                # see nested lambdas too; keep the closest parent)
                if x.get("_lam") is not None:
                    continue
                lf = Func(self, f.unit, op, "%s::<lambda#%d>" % (f.qname, n), f.cls, body, lam_parent=f)
                lf.lambda_expr = x
                x["_lam"] = lf
                f.lambdas.append(lf)
                self.all_lambdas.append(lf)

    # ---- queries ------------------------------------------------------
    def func(self, qname, required=True):
        """The unique function with this qualified name (overloads: list)."""
        fs = self.funcs_by_q.get(qname, [])
        if not fs:
            # a free function moved into (or out of) an anonymous namespace keeps its identity
            anon = getattr(self, "_anon_q", None)
            if anon is None:
                anon = self._anon_q = {}
                for q, lst in self.funcs_by_q.items():
                    if "(anonymous namespace)::" in q:
                        anon.setdefault(q.replace("(anonymous namespace)::", ""), []).extend(lst)
            fs = anon.get(qname.replace("(anonymous namespace)::", ""), [])
            if not fs:
                fs = self.funcs_by_q.get(qname.replace("(anonymous namespace)::", ""), [])
        if not fs and required:
            raise AnalysisBroken("anchor function %s not found (renamed or removed?)" % qname)
        return fs

    def func1(self, qname, nparams=None, required=True, ptype=None):
        fs = self.func(qname, required)
        if nparams is not None:
            fs = [f for f in fs if len(f.params) == nparams]
        if ptype is not None:
            fs = [f for f in fs if any(ptype in qt(p) for p in f.params)]
        if len(fs) != 1:
            if not required and not fs:
                return None
            raise AnalysisBroken("anchor function %s: expected exactly one definition, found %d" % (qname, len(fs)))
        return fs[0]

    def all_funcs(self, with_lambdas=True):
        out = list(self.funcs.values())
        if with_lambdas:
            out += self.all_lambdas
        return out

    def resolve(self, u, ref):
        """Resolve a referencedDecl stub / id to the full declaration if it is
        inside the filtered dump of the same unit."""
        if ref is None:
            return None
        if isinstance(ref, dict):
            rid = ref.get("id")
            return u.by_id.get(rid, ref)
        return u.by_id.get(ref)

    def field_type(self, cls, name):
        r = self.records.get(cls)
        if r and name in r["fields"]:
            return qt(r["fields"][name])
        return None
