"""Tiny interval evaluation over canonical expression forms, driven by the
branch edges that dominate a site (and by one-level guard summaries of helper
functions: 'returns normally only if p in [a, b]')."""
import math

from .expr import canon, pretty, callee_info, children, strip, CALL_KINDS
from .cfg import cfg_of
from .model import walk, qt

INF = math.inf
TOP = (-INF, INF)


def _num(v):
    if isinstance(v, bool):
        return int(v)
    if isinstance(v, (int, float)):
        return v
    try:
        s = str(v).rstrip("uUlLfF")
        if s.lower().startswith("0x"):
            return int(s, 16)
        return int(s)
    except ValueError:
        try:
            return float(str(v).rstrip("fFlL"))
        except ValueError:
            return None


ENUM_VALUES = {}      # 'CellOrientation::N' -> 0, filled by core.Ctx from the program's enum declarations


def eval_int(c, env):
    """Interval (lo, hi) of canonical integer/real expression c under env {var id: (lo, hi)}."""
    t = c[0]
    if t == "enum" and c[1] in ENUM_VALUES:
        return (ENUM_VALUES[c[1]], ENUM_VALUES[c[1]])
    if t == "lit":
        n = _num(c[1])
        return (n, n) if n is not None else TOP
    if t == "var":
        return env.get(c[1], TOP)
    if t == "bin":
        op = c[1]
        a, b = eval_int(c[2], env), eval_int(c[3], env)
        if op == "+":
            return (a[0] + b[0], a[1] + b[1])
        if op == "-":
            return (a[0] - b[1], a[1] - b[0])
        if op == "*":
            ps = [x * y for x in a for y in b if not (math.isinf(x) and y == 0) and not (math.isinf(y) and x == 0)]
            if len(ps) < 4:
                return TOP
            return (min(ps), max(ps))
        return TOP
    if t == "un" and c[1] == "-":
        a = eval_int(c[2], env)
        return (-a[1], -a[0])
    if t == "un" and c[1] == "+":
        return eval_int(c[2], env)
    return TOP


def eval_cond(c, env):
    """True / False / None (unknown) for canonical boolean expression c."""
    t = c[0]
    if t == "lit":
        return bool(c[1]) if isinstance(c[1], bool) else (None if _num(c[1]) is None else _num(c[1]) != 0)
    if t == "un" and c[1] == "!":
        v = eval_cond(c[2], env)
        return None if v is None else (not v)
    if t == "bin":
        op = c[1]
        if op == "&&":
            a, b = eval_cond(c[2], env), eval_cond(c[3], env)
            if a is False or b is False:
                return False
            if a is True and b is True:
                return True
            return None
        if op == "||":
            a, b = eval_cond(c[2], env), eval_cond(c[3], env)
            if a is True or b is True:
                return True
            if a is False and b is False:
                return False
            return None
        if op in ("<", "<=", ">", ">=", "==", "!="):
            a, b = eval_int(c[2], env), eval_int(c[3], env)
            if op == "<":
                return True if a[1] < b[0] else (False if a[0] >= b[1] else None)
            if op == "<=":
                return True if a[1] <= b[0] else (False if a[0] > b[1] else None)
            if op == ">":
                return True if a[0] > b[1] else (False if a[1] <= b[0] else None)
            if op == ">=":
                return True if a[0] >= b[1] else (False if a[1] < b[0] else None)
            if op == "==":
                if a[0] == a[1] == b[0] == b[1]:
                    return True
                return False if (a[1] < b[0] or b[1] < a[0]) else None
            if op == "!=":
                if a[0] == a[1] == b[0] == b[1]:
                    return False
                return True if (a[1] < b[0] or b[1] < a[0]) else None
    return None


def refine(env, c, val, integer=True):
    """Refine env with the knowledge that condition c evaluated to `val`.
    Only comparisons `var op expr` / `expr op var` whose other side has a known interval are used."""
    if c[0] == "un" and c[1] == "!":
        return refine(env, c[2], not val, integer)
    if c[0] != "bin":
        return env
    op = c[1]
    if op == "&&" and val is True:
        return refine(refine(env, c[2], True, integer), c[3], True, integer)
    if op == "||" and val is False:
        return refine(refine(env, c[2], False, integer), c[3], False, integer)
    if op not in ("<", "<=", ">", ">=", "==", "!="):
        return env
    l, r = c[2], c[3]
    neg = {"<": ">=", "<=": ">", ">": "<=", ">=": "<", "==": "!=", "!=": "=="}
    if not val:
        op = neg[op]
    flip = {"<": ">", "<=": ">=", ">": "<", ">=": "<=", "==": "==", "!=": "!="}
    out = dict(env)
    for var, other, o in ((l, r, op), (r, l, flip[op])):
        if var[0] != "var":
            continue
        b = eval_int(other, env)
        lo, hi = out.get(var[1], TOP)
        step = 1 if integer else 0
        if o == "<" and b[1] < INF:
            hi = min(hi, b[1] - step)
        elif o == "<=" and b[1] < INF:
            hi = min(hi, b[1])
        elif o == ">" and b[0] > -INF:
            lo = max(lo, b[0] + step)
        elif o == ">=" and b[0] > -INF:
            lo = max(lo, b[0])
        elif o == "==":
            lo, hi = max(lo, b[0]), min(hi, b[1])
        out[var[1]] = (lo, hi)
    return out


_guard_summary_memo = {}


def guard_summary(ctx, func):
    """{param index: (lo, hi)}: intervals the parameters must lie in for func to
    return normally (from the non-assert branch edges dominating its normal exit,
    and from guard helpers it calls unconditionally)."""
    key = func.key
    if key in _guard_summary_memo:
        return _guard_summary_memo[key]
    _guard_summary_memo[key] = {}
    g = cfg_of(func)
    env = env_at_node(ctx, func, g.exit)
    out = {}
    for i, p in enumerate(func.params):
        iv = env.get(p.get("id"))
        if iv and iv != TOP:
            out[i] = iv
    _guard_summary_memo[key] = out
    return out


def env_at_node(ctx, func, cnode, asserts=False):
    g = cfg_of(func)
    env = {}
    doms = g.dominators(cnode)
    # outermost first so that later (nearer) refinements see earlier bounds
    for d in reversed(([cnode] if cnode.kind == "edge" else []) + doms):
        if d.kind == "edge":
            if d.from_assert and not asserts:
                continue
            if isinstance(d.val, bool):
                env = refine(env, canon(d.ast), d.val)
        elif d.kind in ("stmt", "cond") and d.ast is not None and d is not cnode:
            # a dominating unconditional call to a guard helper
            for x in walk(d.ast):
                if x.get("kind") in ("CallExpr", "CXXMemberCallExpr"):
                    ci, fs = ctx.eff.resolve_callee(x)
                    for f in fs:
                        if f.key == func.key:
                            continue
                        gs = guard_summary(ctx, f)
                        for i, iv in gs.items():
                            if i < len(ci["args"]):
                                a = canon(ci["args"][i])
                                if a[0] == "var":
                                    lo, hi = env.get(a[1], TOP)
                                    env[a[1]] = (max(lo, iv[0]), min(hi, iv[1]))
    return env


def env_at(ctx, func, ast_node, asserts=False):
    g = cfg_of(func)
    cn = g.node_for(ast_node)
    if cn is None:
        return None
    return env_at_node(ctx, func, cn, asserts)
